(* C19 proofs: debug evaluation (deval), the recorder (rec_all) and the report renderer *)
From Coq Require Import List String Ascii Bool NArith ZArith Lia.
From Yae Require Import Base.Sexp Model.Ty Gen.Generated Model.Num Model.Lexer Model.Literal Model.Cst Model.Check
  Model.Val Model.Render Model.Builtins Model.Eval Model.Debug.
Import ListNotations.
Local Open Scope list_scope.
Local Open Scope nat_scope.

(* ------------------------------------------------------------------------------------------------------------ *)
(* 1. what is recorded: computation lemmas                                                                      *)
(* ------------------------------------------------------------------------------------------------------------ *)

Lemma record_literals : forall ops orc fe rho f a t r o,
  (match a with AStr _ | ANum _ _ | ATime _ | ABool _ => True | _ => False end) ->
  deval ops orc fe rho (S f) a = (t, r, o) -> r = [].
Proof.
  intros ops orc fe rho f a t r o Ha H.
  destruct a; try contradiction; cbn in H; unfold dret in H; inversion H; reflexivity.
Qed.

Lemma record_ident : forall ops orc fe rho f col name v,
  assoc name rho = Some v ->
  deval ops orc fe rho (S f) (AIdent col name) = ([], [(v, (col + 1)%Z)], OVal v).
Proof.
  intros ops orc fe rho f col name v H.
  cbn [deval]. rewrite H. reflexivity.
Qed.

Lemma recording_val : forall col (m : DM val) t r v,
  recording col m = (t, r, OVal v) -> exists r0, r = r0 ++ [(v, (col + 1)%Z)].
Proof.
  intros col m t r v H.
  destruct m as [[t0 r0] o0]. destruct o0 as [x|k|k]; cbn in H; inversion H; subst.
  exists r0. reflexivity.
Qed.

Lemma record_last : forall ops orc fe rho f a t r v col,
  (match a with
   | AIdent c _ | ACall c _ _ _ _ _ | ASub c _ _ _ | AMember c _ _ _ _ => c = col
   | _ => False end) ->
  deval ops orc fe rho f a = (t, r, OVal v) -> exists r0, r = r0 ++ [(v, (col + 1)%Z)].
Proof.
  intros ops orc fe rho f a t r v col Ha H.
  destruct f as [|f].
  - cbn in H. inversion H.
  - destruct a; try contradiction; subst; cbn [deval] in H; eapply recording_val; exact H.
Qed.

(* ------------------------------------------------------------------------------------------------------------ *)
(* the recorder                                                                                                 *)
(* ------------------------------------------------------------------------------------------------------------ *)

Definition cnt (col : Z) (vs : list recd) : nat := List.length (filter (fun e => Z.leb col (snd e)) vs).

Lemma cnt_le : forall col vs, cnt col vs <= List.length vs.
Proof.
  intros col vs. unfold cnt. induction vs as [|e vs IH]; cbn; [lia|].
  destruct (Z.leb col (snd e)); cbn; lia.
Qed.

Lemma cnt_mono : forall col vs, cnt (col + 1)%Z vs <= cnt col vs.
Proof.
  intros col vs. unfold cnt. induction vs as [|e vs IH]; cbn; [lia|].
  destruct (Z.leb_spec (col + 1)%Z (snd e)); destruct (Z.leb_spec col (snd e)); cbn; lia.
Qed.

Lemma cnt_taken : forall col vs,
  existsb (fun e => Z.eqb (snd e) col) vs = true -> cnt (col + 1)%Z vs < cnt col vs.
Proof.
  intros col vs. induction vs as [|e vs IH]; cbn; [discriminate|].
  intros H. apply orb_true_iff in H.
  fold (cnt (col + 1)%Z vs) in *. fold (cnt col vs) in *.
  assert (Hm := cnt_mono col vs).
  unfold cnt in *. cbn.
  destruct H as [H|H].
  - apply Z.eqb_eq in H.
    destruct (Z.leb_spec (col + 1)%Z (snd e)); destruct (Z.leb_spec col (snd e)); cbn; lia.
  - specialize (IH H).
    destruct (Z.leb_spec (col + 1)%Z (snd e)); destruct (Z.leb_spec col (snd e)); cbn; lia.
Qed.

Lemma existsb_col_in : forall col (vs : list recd),
  existsb (fun e => Z.eqb (snd e) col) vs = true <-> In col (map snd vs).
Proof.
  intros col vs. rewrite existsb_exists, in_map_iff. split.
  - intros [x [Hin Hx]]. apply Z.eqb_eq in Hx. exists x. auto.
  - intros [x [Hx Hin]]. exists x. split; [auto|]. apply Z.eqb_eq. auto.
Qed.

Lemma rec_one_ok : forall f vs v col,
  cnt col vs < f ->
  exists col', rec_one f vs v col = vs ++ [(v, col')] /\ (col <= col')%Z /\ ~ In col' (map snd vs) /\
               (~ In col (map snd vs) -> col' = col).
Proof.
  induction f as [|f IH]; intros vs v col Hf; [lia|].
  cbn [rec_one].
  destruct (existsb (fun e => Z.eqb (snd e) col) vs) eqn:E.
  - assert (Hlt := cnt_taken col vs E).
    destruct (IH vs v (col + 1)%Z) as [col' [H1 [H2 [H3 H4]]]]; [lia|].
    exists col'. split; [exact H1|]. split; [lia|]. split; [exact H3|].
    intros Hn. exfalso. apply Hn. apply existsb_col_in. exact E.
  - exists col. split; [reflexivity|]. split; [lia|]. split.
    + intros Hin. apply existsb_col_in in Hin. congruence.
    + reflexivity.
Qed.

Lemma NoDup_snoc : forall (X : Type) (l : list X) (x : X), NoDup l -> ~ In x l -> NoDup (l ++ [x]).
Proof.
  intros X l x Hnd. induction Hnd as [|y l Hy Hnd IH]; intros Hx; cbn.
  - constructor; [intros []|constructor].
  - constructor.
    + intros Hin. apply in_app_or in Hin. destruct Hin as [Hin|[Hin|[]]]; [auto|]. subst. apply Hx. left. reflexivity.
    + apply IH. intros Hin. apply Hx. right. exact Hin.
Qed.

Lemma rec_fold_spec : forall raw acc,
  NoDup (map snd acc) ->
  exists tail,
    fold_left (fun acc e => rec_one (S (len acc)) acc (fst e) (snd e)) raw acc = acc ++ tail /\
    map fst tail = map fst raw /\
    Forall2 (fun e e' : recd => (snd e <= snd e')%Z) raw tail /\
    NoDup (map snd (acc ++ tail)) /\
    (NoDup (map snd (acc ++ raw)) -> tail = raw).
Proof.
  induction raw as [|e raw IH]; intros acc Hnd.
  - exists []. cbn. rewrite app_nil_r. repeat split; auto.
  - cbn [fold_left].
    destruct (rec_one_ok (S (len acc)) acc (fst e) (snd e)) as [col' [H1 [H2 [H3 H4]]]].
    { unfold len. apply Nat.lt_succ_r. apply cnt_le. }
    unfold recd in *. rewrite H1.
    assert (Hnd' : NoDup (map snd (acc ++ [(fst e, col')]))).
    { rewrite map_app. cbn. apply NoDup_snoc; assumption. }
    destruct (IH (acc ++ [(fst e, col')]) Hnd') as [tail [T1 [T2 [T3 [T4 T5]]]]].
    exists ((fst e, col') :: tail).
    rewrite T1. rewrite <- app_assoc. cbn [app].
    split; [reflexivity|]. split; [cbn; rewrite T2; reflexivity|].
    split; [constructor; [cbn; exact H2 | exact T3]|].
    split; [rewrite <- app_assoc in T4; exact T4|].
    intros Hall.
    assert (Hcol : col' = snd e).
    { apply H4. intros Hin. rewrite map_app in Hall. cbn in Hall.
      apply NoDup_remove_2 in Hall. apply Hall. apply in_or_app. left. exact Hin. }
    subst col'. rewrite <- surjective_pairing in *.
    rewrite T5; [reflexivity|]. rewrite <- app_assoc. exact Hall.
Qed.

Lemma rec_all_spec : forall raw,
  map fst (rec_all raw) = map fst raw /\
  Forall2 (fun e e' => (snd e <= snd e')%Z) raw (rec_all raw) /\
  NoDup (map snd (rec_all raw)) /\
  (NoDup (map snd raw) -> rec_all raw = raw).
Proof.
  intros raw. unfold rec_all.
  destruct (rec_fold_spec raw []) as [tail [T1 [T2 [T3 [T4 T5]]]]]; [constructor|].
  unfold recd in *. rewrite T1. cbn [app] in *. repeat split; auto.
Qed.

(* ------------------------------------------------------------------------------------------------------------ *)
(* 2. transparency: forgetting the record turns deval into eval                                                  *)
(* ------------------------------------------------------------------------------------------------------------ *)

Definition erase {X} (m : DM X) : M X := let '(t, _, o) := m in (t, o).

Lemma erase_dbind : forall X Y (m : DM X) (k : X -> DM Y) (m' : M X) (k' : X -> M Y),
  erase m = m' -> (forall x, erase (k x) = k' x) -> erase (dbind m k) = mbind m' k'.
Proof.
  intros X Y m k m' k' Hm Hk. destruct m as [[t r] o]. cbn in Hm. subst m'.
  destruct o as [x|e|e]; cbn; try reflexivity.
  specialize (Hk x). destruct (k x) as [[t' r'] o']. cbn in Hk. rewrite <- Hk. reflexivity.
Qed.

Lemma erase_dlift : forall X (m : M X), erase (dlift m) = m.
Proof. intros X [t o]. reflexivity. Qed.

Lemma erase_dret : forall X (x : X), erase (dret x) = ret x.
Proof. reflexivity. Qed.

Lemma erase_recording : forall col (m : DM val), erase (recording col m) = erase m.
Proof.
  intros col [[t r] o]. destruct o; cbn; try reflexivity. rewrite app_nil_r. reflexivity.
Qed.

Lemma erase_dmapM : forall X Y (f : X -> DM Y) (g : X -> M Y) l,
  (forall x, erase (f x) = g x) -> erase (dmapM f l) = mmapM g l.
Proof.
  intros X Y f g l H. induction l as [|x l IH]; [reflexivity|].
  cbn [dmapM mmapM]. apply erase_dbind; [apply H|]. intros y.
  apply erase_dbind; [exact IH|]. intros ys. reflexivity.
Qed.

Definition thunks_agree (d : unit -> DM val) (e : unit -> M val) : Prop := erase (d tt) = e tt.

Lemma lazyif_erase : forall dths ths, Forall2 thunks_agree dths ths ->
  erase (match dths with
         | [c; a; b] => dbind (c tt) (fun cv => dbind (d_as_bool cv) (fun cb : bool => if cb then a tt else b tt))
         | _ => dlift (fault XOther)
         end) =
  match ths with
  | [c; a; b] => mbind (c tt) (fun cv => mbind (as_bool cv) (fun cb : bool => if cb then a tt else b tt))
  | _ => fault XOther
  end.
Proof.
  intros dths ths H.
  destruct H as [|c c' ? ? Hc H]; [reflexivity|].
  destruct H as [|a a' ? ? Ha H]; [reflexivity|].
  destruct H as [|b b' ? ? Hb H]; [reflexivity|].
  destruct H as [|? ? ? ? ? H]; [|reflexivity].
  apply erase_dbind; [exact Hc|]. intros cv.
  apply erase_dbind; [apply erase_dlift|]. intros [|]; assumption.
Qed.

Lemma conj_false_erase : forall dths ths, Forall2 thunks_agree dths ths ->
  erase (match dths with
         | [a; b] => dbind (a tt) (fun av => dbind (d_as_bool av) (fun ab : bool =>
                       if Bool.eqb ab false then dret (VBool false)
                       else dbind (b tt) (fun bv => dbind (d_as_bool bv) (fun bb : bool => dret (VBool bb)))))
         | _ => dlift (fault XOther)
         end) =
  match ths with
  | [a; b] => mbind (a tt) (fun av => mbind (as_bool av) (fun ab : bool =>
                if ab then mbind (b tt) (fun bv => mbind (as_bool bv) (fun bb : bool => ret (VBool bb)))
                else ret (VBool false)))
  | _ => fault XOther
  end.
Proof.
  intros dths ths H.
  destruct H as [|a a' ? ? Ha H]; [reflexivity|].
  destruct H as [|b b' ? ? Hb H]; [reflexivity|].
  destruct H as [|? ? ? ? ? H]; [|reflexivity].
  apply erase_dbind; [exact Ha|]. intros av.
  apply erase_dbind; [apply erase_dlift|]. intros [|]; cbn [Bool.eqb]; [|reflexivity].
  apply erase_dbind; [exact Hb|]. intros bv.
  apply erase_dbind; [apply erase_dlift|]. intros bb. reflexivity.
Qed.

Lemma conj_true_erase : forall dths ths, Forall2 thunks_agree dths ths ->
  erase (match dths with
         | [a; b] => dbind (a tt) (fun av => dbind (d_as_bool av) (fun ab : bool =>
                       if Bool.eqb ab true then dret (VBool true)
                       else dbind (b tt) (fun bv => dbind (d_as_bool bv) (fun bb : bool => dret (VBool bb)))))
         | _ => dlift (fault XOther)
         end) =
  match ths with
  | [a; b] => mbind (a tt) (fun av => mbind (as_bool av) (fun ab : bool =>
                if ab then ret (VBool true)
                else mbind (b tt) (fun bv => mbind (as_bool bv) (fun bb : bool => ret (VBool bb)))))
  | _ => fault XOther
  end.
Proof.
  intros dths ths H.
  destruct H as [|a a' ? ? Ha H]; [reflexivity|].
  destruct H as [|b b' ? ? Hb H]; [reflexivity|].
  destruct H as [|? ? ? ? ? H]; [|reflexivity].
  apply erase_dbind; [exact Ha|]. intros av.
  apply erase_dbind; [apply erase_dlift|]. intros [|]; cbn [Bool.eqb]; [reflexivity|].
  apply erase_dbind; [exact Hb|]. intros bv.
  apply erase_dbind; [apply erase_dlift|]. intros bb. reflexivity.
Qed.

(* no built-in is called "lazyif" or "both" *)
Lemma builtin_name : forall sg, sig_is_builtin sg = true ->
  String.eqb (s_name sg) "lazyif" = false /\ String.eqb (s_name sg) "both" = false.
Proof.
  intros sg H. unfold sig_is_builtin in H. apply existsb_exists in H.
  destruct H as [[[[n ps] r] lz] [Hin Hx]].
  apply andb_true_iff in Hx. destruct Hx as [Hx _]. apply andb_true_iff in Hx. destruct Hx as [Hx _].
  apply String.eqb_eq in Hx. subst.
  assert (Hall : forallb (fun x : string * list ty * ty * bool =>
                            let '(n, _, _, _) := x in
                            negb (String.eqb n "lazyif") && negb (String.eqb n "both")) builtin_sigs = true)
    by (vm_compute; reflexivity).
  rewrite forallb_forall in Hall. specialize (Hall _ Hin). cbn in Hall.
  apply andb_true_iff in Hall. destruct Hall as [H1 H2].
  apply negb_true_iff in H1. apply negb_true_iff in H2. cbn [s_name]. auto.
Qed.

Lemma lazy_erase : forall sg dths ths, Forall2 thunks_agree dths ths ->
  erase (d_apply_lazy sg dths) = (if sig_is_builtin sg then apply_lazy sg else host_lazy (s_name sg)) ths.
Proof.
  intros sg dths ths H. unfold d_apply_lazy. cbv zeta.
  destruct (sig_is_builtin sg) eqn:Eb.
  - destruct (builtin_name sg Eb) as [N1 N2].
    assert (Hother : erase (dlift (fault XOther) : DM val) = host_lazy (s_name sg) ths).
    { unfold host_lazy. rewrite N1, N2. reflexivity. }
    unfold apply_lazy.
    destruct (classify (s_name sg) (s_params sg)) as [b|]; [|exact Hother].
    destruct b; try exact Hother.
    + apply lazyif_erase; exact H.
    + apply conj_false_erase; exact H.
    + apply conj_true_erase; exact H.
  - unfold host_lazy.
    destruct (String.eqb (s_name sg) "lazyif") eqn:E1.
    + apply String.eqb_eq in E1. rewrite E1.
      apply erase_dbind; [reflexivity|]. intros _. apply lazyif_erase; exact H.
    + destruct (String.eqb (s_name sg) "both") eqn:E2.
      * apply String.eqb_eq in E2. rewrite E2.
        apply erase_dbind; [reflexivity|]. intros _. apply conj_false_erase; exact H.
      * reflexivity.
Qed.

Lemma thunks_map : forall (F : aexpr -> DM val) (G : aexpr -> M val) args,
  (forall a, erase (F a) = G a) ->
  Forall2 thunks_agree (map (fun x (_ : unit) => F x) args) (map (fun x (_ : unit) => G x) args).
Proof.
  intros F G args H. induction args as [|x args IH]; cbn; constructor; [apply H|exact IH].
Qed.

Lemma erase_deval : forall ops orc fe rho f a,
  erase (deval ops orc fe rho f a) = eval ops orc fe rho f a.
Proof.
  intros ops orc fe rho f. induction f as [|f IH]; intros a; [reflexivity|].
  assert (Hcall : forall sg args,
    erase (if s_lazy sg then d_apply_lazy sg (map (fun x (_ : unit) => deval ops orc fe rho f x) args)
           else dbind (dmapM (deval ops orc fe rho f) args) (fun vs => dlift (apply_strict ops orc sg vs))) =
    (if s_lazy sg
     then (if sig_is_builtin sg then apply_lazy sg else host_lazy (s_name sg))
            (map (fun x (_ : unit) => eval ops orc fe rho f x) args)
     else mbind (mmapM (eval ops orc fe rho f) args) (fun vs => apply_strict ops orc sg vs))).
  { intros sg args. destruct (s_lazy sg).
    - apply lazy_erase. apply thunks_map. exact IH.
    - apply erase_dbind; [apply erase_dmapM; exact IH|]. intros vs. apply erase_dlift. }
  destruct a; cbn [deval eval]; try reflexivity.
  - (* AList *)
    destruct es as [|e es]; [reflexivity|].
    apply erase_dbind; [apply erase_dmapM; exact IH|]. intros vs. reflexivity.
  - (* AMap *)
    destruct kvs as [|kv kvs]; [reflexivity|].
    apply erase_dbind; [|intros vs; reflexivity].
    assert (Hgo : forall l acc,
      erase ((fix go (kvs : list (aexpr * aexpr)) (acc : list (list N * val)) : DM (list (list N * val)) :=
                match kvs with
                | [] => dret acc
                | (k, v) :: r =>
                    dbind (deval ops orc fe rho f k) (fun kv => dbind (dlift (key_of ops kv)) (fun kk =>
                    dbind (deval ops orc fe rho f v) (fun vv => go r (kput kk vv acc))))
                end) l acc) =
      (fix go (kvs : list (aexpr * aexpr)) (acc : list (list N * val)) : M (list (list N * val)) :=
                match kvs with
                | [] => ret acc
                | (k, v) :: r =>
                    mbind (eval ops orc fe rho f k) (fun kv => mbind (key_of ops kv) (fun kk =>
                    mbind (eval ops orc fe rho f v) (fun vv => go r (kput kk vv acc))))
                end) l acc).
    { intros l. induction l as [|[k v] l IHl]; intros acc; [reflexivity|].
      apply erase_dbind; [apply IH|]. intros kv'.
      apply erase_dbind; [apply erase_dlift|]. intros kk.
      apply erase_dbind; [apply IH|]. intros vv. apply IHl. }
    apply (Hgo (kv :: kvs) []).
  - (* AObj *)
    destruct fs as [|nf fs]; [reflexivity|].
    apply erase_dbind; [apply erase_dmapM; intros x; apply IH|]. intros vs. reflexivity.
  - (* AIdent *)
    rewrite erase_recording. destruct (assoc name rho); reflexivity.
  - (* ACall *)
    rewrite erase_recording.
    destruct (String.eqb resolved ""%string).
    + apply erase_dbind; [apply IH|]. intros fv.
      destruct fv; try reflexivity. destruct t; try reflexivity. apply Hcall.
    + destruct (lookup_fn fe resolved index); [apply Hcall|reflexivity].
  - (* ASub *)
    rewrite erase_recording.
    apply erase_dbind; [apply IH|]. intros x. destruct x; try reflexivity.
    + apply erase_dbind; [apply IH|]. intros iv.
      apply erase_dbind; [apply erase_dlift|]. intros n.
      destruct (_ || _); [reflexivity|]. destruct (nth_error _ _); reflexivity.
    + apply erase_dbind; [apply IH|]. intros kv.
      apply erase_dbind; [apply erase_dlift|]. intros kk.
      destruct (kget kk kvs); reflexivity.
  - (* AMember *)
    rewrite erase_recording.
    apply erase_dbind; [apply IH|]. intros ov. destruct ov; try reflexivity.
    destruct (obj_load _ _ _ _); reflexivity.
Qed.

Lemma transparent : forall ops orc fe rho f a t r o,
  deval ops orc fe rho f a = (t, r, o) -> eval ops orc fe rho f a = (t, o).
Proof.
  intros ops orc fe rho f a t r o H. rewrite <- erase_deval. rewrite H. reflexivity.
Qed.

(* ------------------------------------------------------------------------------------------------------------ *)
(* 3. a lazy call records only what it evaluated                                                                *)
(* ------------------------------------------------------------------------------------------------------------ *)

Lemma record_if_unselected : forall ops orc fe rho f col key idx fty callee c a b tc rc,
  (exists sg, lookup_fn fe key idx = Some sg /\ sig_is_builtin sg = true /\ s_lazy sg = true /\
              classify (s_name sg) (s_params sg) = Some BIf) -> key <> ""%string ->
  deval ops orc fe rho f c = (tc, rc, OVal (VBool true)) ->
  forall t r o, deval ops orc fe rho (S f) (ACall col key idx fty callee [c; a; b]) = (t, r, o) ->
  exists ta ra oa, deval ops orc fe rho f a = (ta, ra, oa) /\ t = tc ++ ta /\
    r = rc ++ ra ++ (match oa with OVal v => [(v, (col + 1)%Z)] | _ => [] end).
Proof.
  intros ops orc fe rho f col key idx fty callee c a b tc rc [sg [Hl [Hb [Hz Hc]]]] Hkey Hcond t r o H.
  cbn [deval] in H.
  apply String.eqb_neq in Hkey. rewrite Hkey, Hl, Hz in H. cbn [map] in H.
  unfold d_apply_lazy in H. cbv zeta in H. rewrite Hb, Hc in H.
  rewrite Hcond in H.
  destruct (deval ops orc fe rho f a) as [[ta ra] oa].
  exists ta, ra, oa. split; [reflexivity|].
  destruct oa as [x|k|k]; cbn in H; inversion H; subst; clear H.
  - rewrite app_nil_r. rewrite <- app_assoc. auto.
  - rewrite app_nil_r. auto.
  - rewrite app_nil_r. auto.
Qed.

(* ------------------------------------------------------------------------------------------------------------ *)
(* 4. the renderer                                                                                              *)
(* ------------------------------------------------------------------------------------------------------------ *)

Definition nonl (l : list N) : Prop := ~ In 10%N l.

Definition drop_lf (r : list N) : list N := match r with 10%N :: r' => r' | _ => r end.

Lemma split_lines_cons : forall c r cur,
  split_lines (c :: r) cur =
  if N.eqb c 13 then rev cur :: split_lines (drop_lf r) []
  else if N.eqb c 10 then rev cur :: split_lines r []
  else split_lines r (c :: cur).
Proof.
  intros c r cur.
  destruct c as [|p]; [reflexivity|].
  do 4 (try (destruct p as [p|p|]; try reflexivity)).
  destruct r as [|d r]; [reflexivity|].
  destruct d as [|q]; [reflexivity|].
  do 4 (try (destruct q as [q|q|]; try reflexivity)).
Qed.

Lemma split_lines_nonempty : forall l cur, split_lines l cur <> [].
Proof.
  induction l as [|c r IH]; intros cur; [discriminate|].
  rewrite split_lines_cons. destruct (N.eqb c 13); [discriminate|]. destruct (N.eqb c 10); [discriminate|]. apply IH.
Qed.

Lemma split_lines_strong : forall n l cur, List.length l <= n -> nonl cur -> Forall nonl (split_lines l cur).
Proof.
  induction n as [|n IH]; intros l cur Hn Hc.
  - destruct l; [|cbn in Hn; lia]. cbn. constructor; [|constructor]. unfold nonl. rewrite <- in_rev. exact Hc.
  - destruct l as [|c r].
    + cbn. constructor; [|constructor]. unfold nonl. rewrite <- in_rev. exact Hc.
    + cbn in Hn. rewrite split_lines_cons.
      assert (Hrev : nonl (rev cur)) by (unfold nonl; rewrite <- in_rev; exact Hc).
      assert (Hnil : nonl []) by (intros []).
      destruct (N.eqb c 13) eqn:E13.
      * constructor; [exact Hrev|]. apply IH; [|exact Hnil].
        unfold drop_lf. destruct r as [|d r']; [cbn; lia|].
        destruct d as [|q]; [cbn in *; lia|].
        do 4 (try (destruct q as [q|q|]; try (cbn in *; lia))).
      * destruct (N.eqb c 10) eqn:E10.
        -- constructor; [exact Hrev|]. apply IH; [lia|exact Hnil].
        -- apply IH; [lia|]. intros [Hin|Hin]; [|exact (Hc Hin)]. subst c. discriminate.
Qed.

Lemma split_lines_nonl : forall l, Forall nonl (split_lines l []).
Proof. intros l. apply (split_lines_strong (List.length l)); [lia|intros []]. Qed.

Lemma split_lines_id : forall l cur, ~ In 10%N l -> ~ In 13%N l -> split_lines l cur = [rev cur ++ l].
Proof.
  induction l as [|c r IH]; intros cur H10 H13.
  - cbn. rewrite app_nil_r. reflexivity.
  - rewrite split_lines_cons.
    destruct (N.eqb_spec c 13) as [E|E]; [exfalso; apply H13; left; auto|].
    destruct (N.eqb_spec c 10) as [E'|E']; [exfalso; apply H10; left; auto|].
    rewrite IH.
    + cbn [rev]. rewrite <- app_assoc. reflexivity.
    + intros Hin. apply H10. right. exact Hin.
    + intros Hin. apply H13. right. exact Hin.
Qed.

Lemma split_lines_single : forall l cur, List.length (split_lines l cur) = 1 -> ~ In 10%N l.
Proof.
  induction l as [|c r IH]; intros cur H; [intros []|].
  rewrite split_lines_cons in H.
  destruct (N.eqb c 13) eqn:E13.
  { cbn in H. pose proof (split_lines_nonempty (drop_lf r) []) as Hne.
    destruct (split_lines (drop_lf r) []); [congruence|cbn in H; lia]. }
  destruct (N.eqb_spec c 10) as [E10|E10].
  { cbn in H. pose proof (split_lines_nonempty r []) as Hne.
    destruct (split_lines r []); [congruence|cbn in H; lia]. }
  intros [Hin|Hin]; [congruence|]. exact (IH _ H Hin).
Qed.

(* ---- place ---- *)

Lemma in_firstn : forall (X : Type) n (l : list X) x, In x (firstn n l) -> In x l.
Proof. intros X n l x H. rewrite <- (firstn_skipn n l). apply in_or_app. left. exact H. Qed.

Lemma in_skipn : forall (X : Type) n (l : list X) x, In x (skipn n l) -> In x l.
Proof. intros X n l x H. rewrite <- (firstn_skipn n l). apply in_or_app. right. exact H. Qed.

Lemma place_in : forall t s c x, In x (place t s c) -> In x t \/ x = 32%N \/ In x s.
Proof.
  intros t s c x H. unfold place in H.
  assert (Hline : forall y, In y (t ++ repeat 32%N (c - len t)) -> In y t \/ y = 32%N).
  { intros y Hy. apply in_app_or in Hy. destruct Hy as [Hy|Hy]; [auto|]. right. eapply repeat_spec. exact Hy. }
  destruct (Nat.ltb _ _).
  - apply in_app_or in H. destruct H as [H|H]; [|auto].
    apply in_firstn in H. destruct (Hline _ H); auto.
  - apply in_app_or in H. destruct H as [H|H].
    + apply in_firstn in H. destruct (Hline _ H); auto.
    + apply in_app_or in H. destruct H as [H|H]; [auto|].
      apply in_skipn in H. destruct (Hline _ H); auto.
Qed.

Lemma place_nonl : forall t s c, nonl t -> nonl s -> nonl (place t s c).
Proof.
  intros t s c Ht Hs H. apply place_in in H. destruct H as [H|[H|H]]; [auto|discriminate|auto].
Qed.

(* [tv] sits on [t] from (1-based) column [col] on *)
Definition holds (t : list N) (col : nat) (tv : list N) : Prop :=
  exists pre post, t = pre ++ tv ++ post /\ List.length pre = col - 1.

Lemma place_holds : forall t s c, holds (place t s c) c s.
Proof.
  intros t s c. unfold place, len.
  set (line := t ++ repeat 32%N (c - List.length t)).
  assert (Hlen : c <= List.length line).
  { unfold line. rewrite app_length, repeat_length. lia. }
  assert (Hpre : List.length (firstn (c - 1) line) = c - 1) by (rewrite firstn_length; lia).
  destruct (Nat.ltb _ _).
  - exists (firstn (c - 1) line), []. rewrite app_nil_r. auto.
  - exists (firstn (c - 1) line), (skipn (c - 1 + List.length s) line). auto.
Qed.

Lemma place_keeps : forall t s c col tv,
  holds t col tv -> 1 <= c -> c <= col - 1 -> c - 1 + List.length s <= col - 1 -> holds (place t s c) col tv.
Proof.
  intros t s c col tv [pre [post [Ht Hpre]]] Hc Hc' Hstop. unfold place, len.
  assert (Hlen : List.length t = List.length pre + List.length tv + List.length post).
  { rewrite Ht. rewrite !app_length. lia. }
  replace (c - List.length t) with 0 by lia. cbn [repeat]. rewrite app_nil_r.
  destruct (Nat.ltb_spec (List.length t) (c - 1 + List.length s)) as [Hlt|Hge]; [lia|].
  exists (firstn (c - 1) pre ++ s ++ skipn (c - 1 + List.length s) pre), post. split.
  - rewrite Ht.
    rewrite firstn_app. replace (c - 1 - List.length pre) with 0 by lia. cbn [firstn]. rewrite app_nil_r.
    rewrite skipn_app. replace (c - 1 + List.length s - List.length pre) with 0 by lia. cbn [skipn].
    rewrite <- !app_assoc. reflexivity.
  - rewrite !app_length, firstn_length, skipn_length. lia.
Qed.

(* ---- try_lines ---- *)

Definition step (str : list N) (start endc : Z) (single : bool) (l l' : line) : Prop :=
  l' = l \/
  (fst l' = place (fst l) [124%N] (Z.to_nat start) /\ (snd l' = (start + 1)%Z \/ snd l' = snd l)) \/
  (single = true /\ (endc < snd l)%Z /\ l' = (place (fst l) str (Z.to_nat start), start)).

Definition placed (str : list N) (start : Z) (l' : line) : Prop :=
  exists t, l' = (place t str (Z.to_nat start), start).

Lemma Forall2_step_refl : forall str start endc single r, Forall2 (step str start endc single) r r.
Proof. intros. induction r; constructor; [left; reflexivity|assumption]. Qed.

Lemma try_lines_step : forall ls j str start endc single ls' ok,
  j <> 0 -> try_lines ls j str start endc single = (ls', ok) ->
  Forall2 (step str start endc single) ls ls' /\ (ok = true -> Exists (placed str start) ls').
Proof.
  intros ls. induction ls as [|[txt sc] r IH]; intros j str start endc single ls' ok Hj H.
  - cbn in H. inversion H; subst. split; [constructor|discriminate].
  - cbn [try_lines] in H.
    destruct (Nat.eqb_spec j 0) as [E|_]; [contradiction|].
    destruct (single && Z.ltb endc sc) eqn:Es.
    + inversion H; subst; clear H. apply andb_true_iff in Es. destruct Es as [Es1 Es2].
      apply Z.ltb_lt in Es2. split.
      * constructor; [|apply Forall2_step_refl]. right. right. auto.
      * intros _. constructor. exists txt. reflexivity.
    + destruct (try_lines r (S j) str start endc single) as [r' ok'] eqn:Er.
      inversion H; subst; clear H.
      destruct (IH (S j) str start endc single r' ok) as [IH1 IH2]; [lia|exact Er|]. split.
      * constructor; [|exact IH1]. right. left. cbn [fst snd]. split; [reflexivity|].
        destruct (Nat.ltb 1 j); auto.
      * intros Hok. apply Exists_cons_tl. apply IH2. exact Hok.
Qed.

Definition new_lines (start : Z) (strs : list (list N)) : list line :=
  map (fun s => (place [] s (Z.to_nat start), start)) strs.

Lemma render_value_spec : forall ops src s0 rest e b,
  exists rest' extra,
    render_value ops ((src, s0) :: rest) e b = (src, s0) :: rest' ++ extra /\
    ((rest' = rest /\ extra = [] /\ ((snd e < 1)%Z \/ b = true)) \/
     ((1 <= snd e)%Z /\ b = false /\
      let str := runes_of_bytes (render ops (fst e)) in
      let strs := split_lines str [] in
      let single := Nat.eqb (len strs) 1 in
      let endc := (snd e + Z.of_nat (len str))%Z in
      Forall2 (step str (snd e) endc single) rest rest' /\
      ((extra = [] /\ Exists (placed str (snd e)) rest') \/ extra = new_lines (snd e) strs))).
Proof.
  intros ops src s0 rest e b. unfold render_value.
  destruct (Z.ltb_spec (snd e) 1) as [Hlt|Hge].
  { exists rest, []. rewrite app_nil_r. split; [reflexivity|]. left. auto. }
  destruct b.
  { exists rest, []. rewrite app_nil_r. split; [reflexivity|]. left. auto. }
  cbv zeta. cbn [try_lines Nat.eqb].
  set (str := runes_of_bytes (render ops (fst e))).
  destruct (try_lines rest 1 str (snd e) (snd e + Z.of_nat (len str)) (Nat.eqb (len (split_lines str [])) 1))
    as [r' ok] eqn:Er.
  apply try_lines_step in Er; [|lia]. destruct Er as [E1 E2].
  destruct ok.
  - exists r', []. rewrite app_nil_r. split; [reflexivity|]. right. repeat split; auto.
  - exists r', (new_lines (snd e) (split_lines str [])). split; [reflexivity|]. right. repeat split; auto.
Qed.

(* ---- joining the lines ---- *)

Fixpoint joinl (l : list line) : list N :=
  match l with
  | [] => []
  | [(t, _)] => t
  | (t, _) :: r => t ++ [10%N] ++ joinl r
  end.

Lemma report_joinl : forall ops src vs,
  report ops src vs = joinl (render_values ops [(src, 0%Z); ([], 0%Z)] (sort_desc vs)).
Proof. reflexivity. Qed.

Lemma joinl_cons : forall x rest, rest <> [] -> joinl (x :: rest) = fst x ++ 10%N :: joinl rest.
Proof. intros [t s] rest H. destruct rest; [contradiction|reflexivity]. Qed.

Lemma joinl_find : forall a x l b, exists before after,
  joinl (x :: a ++ l :: b) = before ++ 10%N :: fst l ++ after /\ (after = [] \/ hd 0%N after = 10%N).
Proof.
  induction a as [|y a IH]; intros x l b.
  - cbn [app]. rewrite joinl_cons by discriminate.
    destruct b as [|z b].
    + exists (fst x), []. destruct l as [t s]. cbn. rewrite app_nil_r. auto.
    + exists (fst x), (10%N :: joinl (z :: b)). rewrite joinl_cons by discriminate. auto.
  - cbn [app]. rewrite joinl_cons by discriminate.
    destruct (IH y l b) as [before [after [H1 H2]]].
    exists (fst x ++ 10%N :: before), after. rewrite H1. rewrite <- app_assoc. auto.
Qed.

(* ---- first line ---- *)

Definition headed (src : list N) (ls : list line) : Prop :=
  exists s0 rest, ls = (src, s0) :: rest /\ rest <> [].

Lemma render_value_headed : forall ops src ls e b, headed src ls -> headed src (render_value ops ls e b).
Proof.
  intros ops src ls e b [s0 [rest [Hls Hne]]]. subst ls.
  destruct (render_value_spec ops src s0 rest e b) as [rest' [extra [Heq Hcase]]].
  rewrite Heq. exists s0, (rest' ++ extra). split; [reflexivity|].
  destruct Hcase as [[H1 _]|[_ [_ H]]].
  - subst. destruct rest; [contradiction|discriminate].
  - cbv zeta in H. destruct H as [H _]. destruct H; [contradiction|discriminate].
Qed.

Lemma render_values_headed : forall ops src vs ls, headed src ls -> headed src (render_values ops ls vs).
Proof.
  intros ops src vs. induction vs as [|e r IH]; intros ls H; [exact H|].
  cbn [render_values]. apply IH. apply render_value_headed. exact H.
Qed.

Lemma first_line : forall ops src vs,
  ~ In 10%N src -> exists rest, report ops src vs = src ++ 10%N :: rest.
Proof.
  intros ops src vs _. rewrite report_joinl.
  destruct (render_values_headed ops src (sort_desc vs) [(src, 0%Z); ([], 0%Z)]) as [s0 [rest [H Hne]]].
  { exists 0%Z, [([], 0%Z)]. split; [reflexivity|discriminate]. }
  rewrite H. rewrite joinl_cons by exact Hne. cbn [fst]. eauto.
Qed.

(* ---- every value stays visible ---- *)

Definition lnonl (l : line) : Prop := nonl (fst l).

Definition good (col : Z) (tv : list N) (l : line) : Prop :=
  (snd l <= col)%Z /\ holds (fst l) (Z.to_nat col) tv.

Lemma step_nonl : forall str start endc single l l',
  (single = true -> nonl str) -> step str start endc single l l' -> lnonl l -> lnonl l'.
Proof.
  intros str start endc single l l' Hs Hstep Hl. unfold lnonl in *.
  destruct Hstep as [H|[[H _]|[H1 [_ H]]]].
  - subst. exact Hl.
  - rewrite H. apply place_nonl; [exact Hl|]. intros [E|[]]. discriminate.
  - subst l'. cbn [fst]. apply place_nonl; auto.
Qed.

Lemma step_good : forall col tv str start endc single l l',
  (1 <= start < col)%Z -> endc = (start + Z.of_nat (List.length str))%Z ->
  step str start endc single l l' -> good col tv l -> good col tv l'.
Proof.
  intros col tv str start endc single l l' Hstart Hend Hstep [Hsc Hh]. unfold good.
  destruct Hstep as [H|[[H1 H2]|[_ [H1 H2]]]].
  - subst. auto.
  - split; [destruct H2 as [H2|H2]; rewrite H2; lia|].
    rewrite H1. apply place_keeps; [exact Hh|lia|lia|cbn; lia].
  - subst l'. cbn [fst snd]. split; [lia|].
    apply place_keeps; [exact Hh|lia|lia|lia].
Qed.

Definition inv1 (src : list N) (ls : list line) : Prop :=
  exists s0 rest, ls = (src, s0) :: rest /\ Forall lnonl rest.

Definition inv2 (src : list N) (col : Z) (tv : list N) (ls : list line) : Prop :=
  exists s0 rest, ls = (src, s0) :: rest /\ Forall lnonl rest /\ Exists (good col tv) rest.

Lemma Forall2_Forall_step : forall (P : line -> Prop) (R : line -> line -> Prop) l l',
  (forall x y, R x y -> P x -> P y) -> Forall2 R l l' -> Forall P l -> Forall P l'.
Proof.
  intros P R l l' HR H. induction H as [|x y l l' Hxy H IH]; intros HP; [constructor|].
  inversion HP; subst. constructor; [eapply HR; eauto|auto].
Qed.

Lemma Forall2_Exists_step : forall (P : line -> Prop) (R : line -> line -> Prop) l l',
  (forall x y, R x y -> P x -> P y) -> Forall2 R l l' -> Exists P l -> Exists P l'.
Proof.
  intros P R l l' HR H. induction H as [|x y l l' Hxy H IH]; intros HP; [inversion HP|].
  inversion HP; subst; [apply Exists_cons_hd; eapply HR; eauto|apply Exists_cons_tl; auto].
Qed.

Lemma single_nonl : forall str, Nat.eqb (len (split_lines str [])) 1 = true -> nonl str.
Proof.
  intros str H. apply Nat.eqb_eq in H. unfold len in H. exact (split_lines_single _ _ H).
Qed.

Lemma new_lines_nonl : forall start str, Forall lnonl (new_lines start (split_lines str [])).
Proof.
  intros start str. unfold new_lines. apply Forall_forall. intros l Hin.
  apply in_map_iff in Hin. destruct Hin as [s [Hl Hs]]. subst l. unfold lnonl. cbn [fst].
  apply place_nonl; [intros []|].
  pose proof (split_lines_nonl str) as Hall. rewrite Forall_forall in Hall. apply Hall. exact Hs.
Qed.

(* the line invariant survives any value *)
Lemma render_value_inv1 : forall ops src ls e b, inv1 src ls -> inv1 src (render_value ops ls e b).
Proof.
  intros ops src ls e b [s0 [rest [Hls Hnl]]]. subst ls.
  destruct (render_value_spec ops src s0 rest e b) as [rest' [extra [Heq Hcase]]].
  rewrite Heq. exists s0, (rest' ++ extra). split; [reflexivity|].
  destruct Hcase as [[H1 [H2 _]]|[_ [_ H]]].
  - subst. rewrite app_nil_r. exact Hnl.
  - cbv zeta in H. destruct H as [Hstep Hextra].
    apply Forall_app. split.
    + eapply Forall2_Forall_step; [|exact Hstep|exact Hnl].
      intros x y Hxy Hx. eapply step_nonl; [|exact Hxy|exact Hx]. apply single_nonl.
    + destruct Hextra as [[Hextra _]|Hextra]; subst extra; [constructor|apply new_lines_nonl].
Qed.

(* a value at a smaller column leaves [tv] where it is *)
Lemma render_value_inv2 : forall ops src col tv ls e b,
  (snd e < col)%Z -> inv2 src col tv ls -> inv2 src col tv (render_value ops ls e b).
Proof.
  intros ops src col tv ls e b Hlt [s0 [rest [Hls [Hnl Hgood]]]].
  destruct (render_value_inv1 ops src ls e b) as [s0' [rest2 [Heq2 Hnl2]]].
  { exists s0, rest. auto. }
  subst ls.
  destruct (render_value_spec ops src s0 rest e b) as [rest' [extra [Heq Hcase]]].
  rewrite Heq in Heq2. inversion Heq2; subst s0' rest2. rewrite Heq.
  exists s0, (rest' ++ extra). split; [reflexivity|]. split; [exact Hnl2|].
  apply Exists_app. left.
  destruct Hcase as [[H1 _]|[Hge [_ H]]].
  - subst. exact Hgood.
  - cbv zeta in H. destruct H as [Hstep _].
    eapply Forall2_Exists_step; [|exact Hstep|exact Hgood].
    intros x y Hxy Hx. eapply step_good; [|reflexivity|exact Hxy|exact Hx]. lia.
Qed.

(* the value itself is put on some line *)
Lemma render_value_self : forall ops src ls v col,
  (1 <= col)%Z ->
  let txt := runes_of_bytes (render ops v) in
  ~ In 10%N txt -> ~ In 13%N txt ->
  inv1 src ls -> inv2 src col txt (render_value ops ls (v, col) false).
Proof.
  intros ops src ls v col Hcol txt H10 H13 Hinv.
  destruct (render_value_inv1 ops src ls (v, col) false Hinv) as [s0' [rest2 [Heq2 Hnl2]]].
  destruct Hinv as [s0 [rest [Hls Hnl]]]. subst ls.
  destruct (render_value_spec ops src s0 rest (v, col) false) as [rest' [extra [Heq Hcase]]].
  rewrite Heq in Heq2. inversion Heq2; subst s0' rest2. rewrite Heq.
  exists s0, (rest' ++ extra). split; [reflexivity|]. split; [exact Hnl2|].
  apply Exists_app.
  destruct Hcase as [[_ [_ [H|H]]]|[_ [_ H]]]; [cbn in H; lia|discriminate|].
  cbv zeta in H. cbn [fst snd] in H. fold txt in H. destruct H as [_ [[_ Hp]|Hextra]].
  - left. eapply Exists_impl; [|exact Hp]. intros l' [t Hl']. subst l'. split; [cbn; lia|].
    cbn [fst]. apply place_holds.
  - right. subst extra. rewrite (split_lines_id txt [] H10 H13). cbn [rev app new_lines map].
    apply Exists_cons_hd. split; [cbn; lia|]. cbn [fst]. apply place_holds.
Qed.

Lemma render_values_inv2 : forall ops src col tv l ls,
  Forall (fun e : recd => (snd e < col)%Z) l -> inv2 src col tv ls -> inv2 src col tv (render_values ops ls l).
Proof.
  intros ops src col tv l. induction l as [|e r IH]; intros ls Hall H; [exact H|].
  inversion Hall; subst. cbn [render_values]. apply IH; [assumption|].
  apply render_value_inv2; assumption.
Qed.

(* ---- the sort ---- *)

Fixpoint sdesc (l : list recd) : Prop :=
  match l with
  | [] => True
  | x :: r => Forall (fun y : recd => (snd y < snd x)%Z) r /\ sdesc r
  end.

Lemma insert_desc_in : forall e l x, In x (insert_desc e l) <-> x = e \/ In x l.
Proof.
  intros e l x. induction l as [|y l IH]; cbn.
  - intuition auto.
  - destruct (Z.leb (snd y) (snd e)); cbn; [intuition auto|]. rewrite IH. intuition auto.
Qed.

Lemma insert_desc_sdesc : forall e l, sdesc l -> ~ In (snd e) (map snd l) -> sdesc (insert_desc e l).
Proof.
  intros e l. induction l as [|y l IH]; intros Hs Hn.
  - cbn. auto.
  - cbn [insert_desc]. cbn in Hs. destruct Hs as [Hy Hs]. cbn in Hn.
    destruct (Z.leb_spec (snd y) (snd e)) as [Hle|Hgt].
    + assert (Hlt : (snd y < snd e)%Z) by (assert (snd y <> snd e) by tauto; lia).
      cbn. split; [|split; assumption].
      constructor; [exact Hlt|]. eapply Forall_impl; [|exact Hy]. cbn. intros a Ha. lia.
    + cbn. split.
      * apply Forall_forall. intros a Ha. apply insert_desc_in in Ha. destruct Ha as [Ha|Ha]; [subst; exact Hgt|].
        rewrite Forall_forall in Hy. apply Hy. exact Ha.
      * apply IH; [exact Hs|tauto].
Qed.

Lemma sort_desc_in : forall l x, In x (sort_desc l) <-> In x l.
Proof.
  intros l x. induction l as [|e l IH]; cbn; [tauto|].
  fold (sort_desc l). rewrite insert_desc_in, IH. intuition auto.
Qed.

Lemma sort_desc_sdesc : forall l, NoDup (map snd l) -> sdesc (sort_desc l).
Proof.
  induction l as [|e l IH]; intros Hnd; [exact I|].
  cbn in Hnd. inversion Hnd as [|? ? Hn Hnd']; subst.
  cbn. fold (sort_desc l). apply insert_desc_sdesc; [apply IH; exact Hnd'|].
  intros Hin. apply Hn. apply in_map_iff in Hin. destruct Hin as [x [Hx Hin]].
  apply (proj1 (sort_desc_in _ _)) in Hin. apply in_map_iff. exists x. auto.
Qed.

Lemma render_values_sdesc : forall ops src v col l ls,
  (1 <= col)%Z ->
  let txt := runes_of_bytes (render ops v) in
  ~ In 10%N txt -> ~ In 13%N txt ->
  sdesc l -> In (v, col) l -> inv1 src ls -> inv2 src col txt (render_values ops ls l).
Proof.
  intros ops src v col l. induction l as [|e r IH]; intros ls Hcol txt H10 H13 Hs Hin Hinv; [destruct Hin|].
  cbn [render_values]. cbn in Hs. destruct Hs as [Hall Hs].
  assert (Hnext : match r with e2 :: _ => Z.eqb (snd e2) (snd e) | [] => false end = false).
  { destruct r as [|e2 r']; [reflexivity|]. inversion Hall; subst. apply Z.eqb_neq. lia. }
  rewrite Hnext.
  destruct Hin as [He|Hin].
  - subst e. apply render_values_inv2; [exact Hall|]. apply render_value_self; assumption.
  - apply IH; try assumption. apply render_value_inv1. exact Hinv.
Qed.

Lemma every_value : forall ops src vs v col,
  ~ In 10%N src -> NoDup (map snd vs) -> In (v, col) vs -> (1 <= col)%Z ->
  let txt := runes_of_bytes (render ops v) in
  ~ In 10%N txt -> ~ In 13%N txt -> txt <> [] ->
  exists before line after,
    report ops src vs = before ++ 10%N :: line ++ after /\
    (after = [] \/ hd 0%N after = 10%N) /\ ~ In 10%N line /\
    firstn (len txt) (skipn (Z.to_nat col - 1) line) = txt.
Proof.
  intros ops src vs v col _ Hnd Hin Hcol txt H10 H13 _.
  rewrite report_joinl.
  destruct (render_values_sdesc ops src v col (sort_desc vs) [(src, 0%Z); ([], 0%Z)] Hcol H10 H13)
    as [s0 [rest [Heq [Hnl Hgood]]]].
  - apply sort_desc_sdesc. exact Hnd.
  - apply sort_desc_in. exact Hin.
  - exists 0%Z, [([], 0%Z)]. split; [reflexivity|]. constructor; [intros []|constructor].
  - fold txt in Hgood. rewrite Heq.
    apply Exists_exists in Hgood. destruct Hgood as [l [Hl [_ Hh]]].
    apply in_split in Hl. destruct Hl as [a [b Hl]]. subst rest.
    destruct (joinl_find a (src, s0) l b) as [before [after [H1 H2]]].
    exists before, (fst l), after. split; [exact H1|]. split; [exact H2|]. split.
    + rewrite Forall_forall in Hnl. apply (Hnl l). apply in_or_app. right. left. reflexivity.
    + destruct Hh as [pre [post [Ht Hpre]]]. rewrite Ht. rewrite <- Hpre.
      rewrite skipn_app. rewrite skipn_all, Nat.sub_diag. cbn [skipn app].
      unfold len. rewrite firstn_app, firstn_all, Nat.sub_diag. cbn [firstn]. apply app_nil_r.
Qed.

Print Assumptions record_literals.
Print Assumptions record_ident.
Print Assumptions record_last.
Print Assumptions record_if_unselected.
Print Assumptions rec_all_spec.
Print Assumptions transparent.
Print Assumptions first_line.
Print Assumptions every_value.
