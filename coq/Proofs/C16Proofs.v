(* Proofs for Props/C16.v: optional values are only consumed through get(maybe[a], a).

   - [sole_eliminator]: by computation over the regenerated built-in table.
   - [no_coercion]: a parameter whose instance is equal to an optional is a variable or an optional pattern
     ([subst_ty] keeps the head constructor of a non-variable, [ty_eqb] compares head constructors).
   - [member_rejected] / [subscript_rejected]: types are unique up to [ty_eqb] ([type_unique], from soundness and
     completeness of the checker, C05), and an optional is not equal to an object / list / map type.
   - [get_maybe]: by computation. *)
From Coq Require Import List String Bool Arith NArith ZArith Lia.
From Yae Require Import Base.Sexp Model.Ty Gen.Generated Model.Unify Model.TySpec Model.Num Model.Lexer Model.Literal Model.Cst
  Model.Check Model.CheckSpec Model.Val Model.Builtins Model.Eval Model.EvalSpec Proofs.C05Proofs.
Import ListNotations.
Local Open Scope string_scope.

Fixpoint mentions_maybe (t : ty) : bool :=
  match t with
  | TMaybe _ => true
  | TList e => mentions_maybe e
  | TMap k v => mentions_maybe k || mentions_maybe v
  | TTuple l => existsb mentions_maybe l
  | TObj fs => existsb (fun f => mentions_maybe (snd f)) fs
  | TFun _ ps r => existsb mentions_maybe ps || mentions_maybe r
  | _ => false
  end.

(* ------------------------------------------------------------------------------------------------ *)
(* the built-in table                                                                                *)
(* ------------------------------------------------------------------------------------------------ *)

Lemma sole_eliminator :
  forallb (fun row => let '(n, ps, r, lz) := row in
                      negb (existsb mentions_maybe ps) || (String.eqb n "get" && String.eqb (shapes ps) "yv"))
          builtin_sigs = true.
Proof. vm_compute; reflexivity. Qed.

(* ------------------------------------------------------------------------------------------------ *)
(* no coercion                                                                                       *)
(* ------------------------------------------------------------------------------------------------ *)

Lemma tys_eqb_nth : forall (a b : list ty) i x y,
  tys_eqb a b = true -> nth_error a i = Some x -> nth_error b i = Some y -> ty_eqb x y = true.
Proof.
  induction a as [|x0 r IH]; intros [|y0 s] i x y E Ha Hb; simpl in E; try discriminate E.
  - destruct i; discriminate Ha.
  - apply andb_true_iff in E. destruct E as [E1 E2].
    destruct i as [|i]; simpl in Ha, Hb.
    + inversion Ha; inversion Hb; subst. exact E1.
    + eapply IH; eauto.
Qed.

Lemma eqb_maybe_head : forall s p U,
  ty_eqb (subst_ty s p) (TMaybe U) = true -> (exists n, p = TVar n) \/ (exists q, p = TMaybe q).
Proof.
  intros s p U E. destruct p; simpl in E; try discriminate E.
  - left. eexists; reflexivity.
  - right. eexists; reflexivity.
Qed.

Lemma no_coercion : forall s params ret args rt i U p,
  instantiates s params ret args rt ->
  nth_error args i = Some (TMaybe U) -> nth_error params i = Some p ->
  (exists n, p = TVar n) \/ (exists q, p = TMaybe q).
Proof.
  intros s params ret args rt i U p HI Ha Hp.
  destruct HI as [_ [_ [_ [HE _]]]].
  apply (eqb_maybe_head s p U).
  apply (tys_eqb_nth (map (subst_ty s) params) args i); [exact HE| |exact Ha].
  rewrite nth_error_map, Hp. reflexivity.
Qed.

(* ------------------------------------------------------------------------------------------------ *)
(* uniqueness of types up to ty_eqb                                                                  *)
(* ------------------------------------------------------------------------------------------------ *)

Lemma type_unique : forall fe G fresh e T1 T2,
  fenv_ok fe = true -> tenv_ok G = true -> fresh_ok fe fresh ->
  has_type fe G e T1 -> has_type fe G e T2 ->
  exists T, ty_eqb T T1 = true /\ ty_eqb T T2 = true.
Proof.
  intros fe G fresh e T1 T2 Hfe HG Hfr H1 H2.
  destruct (check_complete fe G fresh e T1 Hfe HG Hfr H1) as [f1 K1].
  destruct (check_complete fe G fresh e T2 Hfe HG Hfr H2) as [f2 K2].
  destruct (K1 (Nat.max f1 f2) (Nat.le_max_l _ _)) as [a1 [U1 [C1 E1]]].
  destruct (K2 (Nat.max f1 f2) (Nat.le_max_r _ _)) as [a2 [U2 [C2 E2]]].
  rewrite C1 in C2. inversion C2; subst. exists U2. split; assumption.
Qed.

Lemma maybe_not_obj T U fs : ty_eqb T (TMaybe U) = true -> ty_eqb T (TObj fs) = true -> False.
Proof. intros A B. destruct T; simpl in A, B; discriminate. Qed.

Lemma maybe_not_list T U el : ty_eqb T (TMaybe U) = true -> ty_eqb T (TList el) = true -> False.
Proof. intros A B. destruct T; simpl in A, B; discriminate. Qed.

Lemma maybe_not_map T U k v : ty_eqb T (TMaybe U) = true -> ty_eqb T (TMap k v) = true -> False.
Proof. intros A B. destruct T; simpl in A, B; discriminate. Qed.

Lemma member_rejected : forall fe G fresh p col o fname fpos U T,
  fenv_ok fe = true -> tenv_ok G = true -> fresh_ok fe fresh ->
  has_type fe G o (TMaybe U) -> ~ has_type fe G (EMember p col o fname fpos) T.
Proof.
  intros fe G fresh p col o fname fpos U T Hfe HG Hfr Ho Hm.
  inversion Hm as [| | | | | | | | | | | | | | ? ? ? ? ? fs t Hobj Hassoc]; subst.
  destruct (type_unique fe G fresh o (TMaybe U) (TObj fs) Hfe HG Hfr Ho Hobj) as [T0 [A B]].
  exact (maybe_not_obj T0 U fs A B).
Qed.

Lemma subscript_rejected : forall fe G fresh p col o i U T,
  fenv_ok fe = true -> tenv_ok G = true -> fresh_ok fe fresh ->
  has_type fe G o (TMaybe U) -> ~ has_type fe G (ESub p col o i) T.
Proof.
  intros fe G fresh p col o i U T Hfe HG Hfr Ho Hs.
  inversion Hs as [| | | | | | | | | | | | ? ? ? ? el it Hv Hi Hn | ? ? ? ? kt vt it Hv Hi Hk |]; subst.
  - destruct (type_unique fe G fresh o (TMaybe U) (TList T) Hfe HG Hfr Ho Hv) as [T0 [A B]].
    exact (maybe_not_list T0 U T A B).
  - destruct (type_unique fe G fresh o (TMaybe U) (TMap kt T) Hfe HG Hfr Ho Hv) as [T0 [A B]].
    exact (maybe_not_map T0 U kt T A B).
Qed.

(* ------------------------------------------------------------------------------------------------ *)
(* the eliminator                                                                                    *)
(* ------------------------------------------------------------------------------------------------ *)

Lemma get_maybe : forall ops orc t v d,
  bsem ops orc BGetMaybe [VMaybe t (Some v); d] = ret v /\ bsem ops orc BGetMaybe [VMaybe t None; d] = ret d.
Proof. intros ops orc t v d. split; reflexivity. Qed.

Print Assumptions sole_eliminator.
Print Assumptions no_coercion.
Print Assumptions member_rejected.
Print Assumptions subscript_rejected.
Print Assumptions get_maybe.
