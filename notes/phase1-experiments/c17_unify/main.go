// Tests DESIGN.md's C17 matching statement against the real unifier:
//   types.Unify(p, g, {}) succeeds  <=>  exists sigma, inst sigma p g
// where inst is structural in the pattern and only a NON-variable pattern may face bottom.
package main

import (
	"fmt"

	"github.com/goghcrow/yae/types"
)

type T struct {
	k    string // num str bot var list maybe map obj tuple
	name string
	sub  []*T
	fn   []string
}

func (t *T) String() string {
	switch t.k {
	case "var":
		return "'" + t.name
	case "list", "maybe":
		return t.k + "[" + t.sub[0].String() + "]"
	case "map":
		return "map[" + t.sub[0].String() + "," + t.sub[1].String() + "]"
	case "obj":
		s := "{"
		for i, f := range t.fn {
			s += f + ":" + t.sub[i].String() + " "
		}
		return s + "}"
	case "tuple":
		s := "("
		for _, x := range t.sub {
			s += x.String() + " "
		}
		return s + ")"
	}
	return t.k
}

var tv = map[string]*types.Type{}

func toGo(t *T) *types.Type {
	switch t.k {
	case "num":
		return types.Num
	case "str":
		return types.Str
	case "bot":
		return types.Bottom
	case "var":
		if v, ok := tv[t.name]; ok {
			return v
		}
		v := types.TyVar(t.name)
		tv[t.name] = v
		return v
	case "list":
		return types.List(toGo(t.sub[0]))
	case "maybe":
		return types.Maybe(toGo(t.sub[0]))
	case "map":
		return types.Map(toGo(t.sub[0]), toGo(t.sub[1]))
	case "obj":
		fs := make([]types.Field, len(t.fn))
		for i := range t.fn {
			fs[i] = types.Field{Name: t.fn[i], Val: toGo(t.sub[i])}
		}
		return types.Obj(fs)
	case "tuple":
		xs := make([]*types.Type, len(t.sub))
		for i := range t.sub {
			xs[i] = toGo(t.sub[i])
		}
		return types.Tuple(xs)
	}
	panic(t.k)
}

func fieldIdx(fn []string, f string) int {
	for k, g := range fn {
		if g == f {
			return k
		}
	}
	return -1
}

// reference equality: objects by name (the planned ty_eqb)
func eq(a, b *T) bool {
	if a.k != b.k {
		return false
	}
	switch a.k {
	case "var":
		return a.name == b.name
	case "obj":
		if len(a.fn) != len(b.fn) {
			return false
		}
		for i, f := range a.fn {
			j := fieldIdx(b.fn, f)
			if j < 0 || !eq(a.sub[i], b.sub[j]) {
				return false
			}
		}
		return true
	}
	if len(a.sub) != len(b.sub) {
		return false
	}
	for i := range a.sub {
		if !eq(a.sub[i], b.sub[i]) {
			return false
		}
	}
	return true
}

// inst sigma p g
func inst(sig map[string]*T, p, g *T) bool {
	if p.k == "var" {
		s, ok := sig[p.name]
		return ok && eq(s, g) // exact, also when g is bottom
	}
	if g.k == "bot" {
		return true // leniency: a non-variable pattern facing bottom
	}
	if p.k != g.k {
		return false
	}
	if p.k == "obj" {
		if len(p.fn) != len(g.fn) {
			return false
		}
		for i, f := range p.fn {
			j := fieldIdx(g.fn, f)
			if j < 0 || !inst(sig, p.sub[i], g.sub[j]) {
				return false
			}
		}
		return true
	}
	if len(p.sub) != len(g.sub) {
		return false
	}
	for i := range p.sub {
		if !inst(sig, p.sub[i], g.sub[i]) {
			return false
		}
	}
	return true
}

func subterms(g *T, acc *[]*T) {
	*acc = append(*acc, g)
	for _, s := range g.sub {
		subterms(s, acc)
	}
}

func existsSigma(p, g *T, vars []string) bool {
	var cands []*T
	subterms(g, &cands)
	sig := map[string]*T{}
	var rec func(i int) bool
	rec = func(i int) bool {
		if i == len(vars) {
			return inst(sig, p, g)
		}
		for _, c := range cands {
			sig[vars[i]] = c
			if rec(i + 1) {
				return true
			}
		}
		return false
	}
	return rec(0)
}

func gen(depth int, leaves []*T) []*T {
	if depth == 0 {
		return leaves
	}
	sub := gen(depth-1, leaves)
	out := append([]*T{}, sub...)
	for _, a := range sub {
		out = append(out, &T{k: "list", sub: []*T{a}}, &T{k: "maybe", sub: []*T{a}})
	}
	prim := []*T{{k: "num"}, {k: "str"}}
	for _, l := range leaves {
		if l.k == "var" || l.k == "bot" {
			prim = append(prim, l)
		}
	}
	for _, k := range prim {
		for _, v := range sub {
			out = append(out, &T{k: "map", sub: []*T{k, v}})
		}
	}
	if len(sub) <= 12 {
		for _, a := range sub {
			for _, b := range sub {
				out = append(out, &T{k: "obj", fn: []string{"x", "y"}, sub: []*T{a, b}}, &T{k: "obj", fn: []string{"y", "x"}, sub: []*T{a, b}})
			}
		}
	}
	return out
}

func main() {
	a, b := &T{k: "var", name: "a"}, &T{k: "var", name: "b"}
	pats := gen(1, []*T{{k: "num"}, {k: "str"}, a, b})
	grds := gen(1, []*T{{k: "num"}, {k: "str"}, {k: "bot"}})
	fmt.Println("patterns", len(pats), "grounds", len(grds))
	n, bad, succ := 0, 0, 0
	for _, p1 := range pats {
		for _, p2 := range pats {
			p := &T{k: "tuple", sub: []*T{p1, p2}}
			for _, g1 := range grds {
				for _, g2 := range grds {
					g := &T{k: "tuple", sub: []*T{g1, g2}}
					n++
					var got bool
					func() {
						defer func() {
							if r := recover(); r != nil {
								got = false
								fmt.Println("PANIC", p, g, r)
							}
						}()
						got = types.Unify(toGo(p), toGo(g), map[string]*types.Type{}) != nil
					}()
					want := existsSigma(p, g, []string{"a", "b"})
					if got {
						succ++
					}
					if got != want {
						bad++
						if bad <= 15 {
							fmt.Println("MISMATCH unify=", got, "spec=", want, p, "vs", g)
						}
					}
				}
			}
		}
	}
	fmt.Println("pairs", n, "unify-successes", succ, "mismatches", bad)
}
