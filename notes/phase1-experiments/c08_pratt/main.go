// Tests the declarative precedence predicate of DESIGN.md (C08) against the real parser.
package main

import (
	"fmt"
	"math"
	"strings"

	"github.com/goghcrow/yae/parser"
	"github.com/goghcrow/yae/parser/ast"
	"github.com/goghcrow/yae/parser/oper"
	"github.com/goghcrow/yae/parser/pos"
	"github.com/goghcrow/yae/parser/token"
)

var ops = []oper.Operator{
	{Kind: "-", BP: 10, Fixity: oper.PREFIX},
	{Kind: "~", BP: 2.5, Fixity: oper.PREFIX}, // low-power prefix: captures to the right
	{Kind: "-", BP: 7, Fixity: oper.INFIX_L},
	{Kind: "*", BP: 8, Fixity: oper.INFIX_L},
	{Kind: "^", BP: 9, Fixity: oper.INFIX_R},
	{Kind: "<", BP: 6, Fixity: oper.INFIX_N},
	{Kind: "!", BP: 11, Fixity: oper.POSTFIX},
	{Kind: "@", BP: 12.5, Fixity: oper.INFIX_L}, // tighter than call
}

type fix int

const (
	L fix = iota
	R
	N
)

var prefixBP = map[string]float64{"-": 10, "~": 2.5}
var infixBP = map[string]float64{"-": 7, "*": 8, "^": 9, "<": 6, "@": 12.5}
var infixFix = map[string]fix{"-": L, "*": L, "^": R, "<": N, "@": L}
var postfixBP = map[string]float64{"!": 11}

const (
	bpCond   = 2.0
	bpCall   = 12.0
	bpMember = 13.0
)

var inf = math.Inf(1)

// Tr is the reference tree (the planned Coq `cst` without positions).
type Tr struct {
	k    string // atom prefix bin post tern call member sub group list map
	op   string
	sub  []*Tr
	name string // member name token
}

func (t *Tr) String() string {
	switch t.k {
	case "atom":
		return "a"
	case "member":
		return fmt.Sprintf("(. %s %s)", t.sub[0], t.name)
	}
	xs := []string{}
	for _, s := range t.sub {
		xs = append(xs, s.String())
	}
	return "(" + t.k + t.op + " " + strings.Join(xs, " ") + ")"
}

// flatten = the canonical member of `yields t` (no trailing commas)
func flatten(t *Tr) []string {
	switch t.k {
	case "atom":
		return []string{"a"}
	case "prefix":
		return append([]string{t.op}, flatten(t.sub[0])...)
	case "bin":
		return append(append(flatten(t.sub[0]), t.op), flatten(t.sub[1])...)
	case "post":
		return append(flatten(t.sub[0]), t.op)
	case "tern":
		r := append(flatten(t.sub[0]), "?")
		r = append(r, flatten(t.sub[1])...)
		r = append(r, ":")
		return append(r, flatten(t.sub[2])...)
	case "call":
		r := append(flatten(t.sub[0]), "(")
		for i, a := range t.sub[1:] {
			if i > 0 {
				r = append(r, ",")
			}
			r = append(r, flatten(a)...)
		}
		return append(r, ")")
	case "member":
		return append(flatten(t.sub[0]), ".", t.name)
	case "sub":
		r := append(flatten(t.sub[0]), "[")
		r = append(r, flatten(t.sub[1])...)
		return append(r, "]")
	case "group":
		return append(append([]string{"("}, flatten(t.sub[0])...), ")")
	case "list":
		r := []string{"["}
		for i, a := range t.sub {
			if i > 0 {
				r = append(r, ",")
			}
			r = append(r, flatten(a)...)
		}
		return append(r, "]")
	case "map":
		if len(t.sub) == 0 {
			return []string{"[", ":", "]"}
		}
		r := []string{"["}
		for i := 0; i < len(t.sub); i += 2 {
			if i > 0 {
				r = append(r, ",")
			}
			r = append(r, flatten(t.sub[i])...)
			r = append(r, ":")
			r = append(r, flatten(t.sub[i+1])...)
		}
		return append(r, "]")
	}
	panic(t.k)
}

func rbpOf(op string) float64 {
	if infixFix[op] == R {
		return infixBP[op] - 1
	}
	return infixBP[op]
}

// rom: least right binding power left open on the right spine
func rom(t *Tr) float64 {
	switch t.k {
	case "prefix":
		return math.Min(prefixBP[t.op], rom(t.sub[0]))
	case "bin":
		return math.Min(rbpOf(t.op), rom(t.sub[1]))
	case "tern":
		return math.Min(bpCond-1, rom(t.sub[2]))
	}
	return inf
}

func endsWithMember(t *Tr) bool {
	switch t.k {
	case "member":
		return true
	case "prefix":
		return endsWithMember(t.sub[0])
	case "bin":
		return endsWithMember(t.sub[1])
	case "tern":
		return endsWithMember(t.sub[2])
	}
	return false
}

// wfp: the declarative precedence predicate (strictN = the repaired non-associativity clause)
func wfp(rbp float64, t *Tr, strictN bool) bool {
	all0 := func(xs []*Tr) bool {
		for _, x := range xs {
			if !wfp(0, x, strictN) {
				return false
			}
		}
		return true
	}
	attach := func(lbp float64, left *Tr) bool {
		return lbp > rbp && wfp(rbp, left, strictN) && lbp <= rom(left)
	}
	switch t.k {
	case "atom":
		return true
	case "prefix":
		return wfp(prefixBP[t.op], t.sub[0], strictN)
	case "bin":
		if !attach(infixBP[t.op], t.sub[0]) || !wfp(rbpOf(t.op), t.sub[1], strictN) {
			return false
		}
		if strictN && infixFix[t.op] == N {
			for _, c := range t.sub {
				if c.k == "bin" && c.op == t.op {
					return false
				}
			}
		}
		return true
	case "post":
		return attach(postfixBP[t.op], t.sub[0])
	case "tern":
		return attach(bpCond, t.sub[0]) && wfp(0, t.sub[1], strictN) && wfp(bpCond-1, t.sub[2], strictN)
	case "call":
		f := t.sub[0]
		if f.k == "member" { // immediate call after .name: no power test of its own
			return wfp(rbp, f, strictN) && all0(t.sub[1:])
		}
		return attach(bpCall, f) && !endsWithMember(f) && all0(t.sub[1:])
	case "member":
		return attach(bpMember, t.sub[0]) && t.name != ""
	case "sub":
		return attach(bpMember, t.sub[0]) && wfp(0, t.sub[1], strictN)
	case "group":
		return wfp(0, t.sub[0], strictN)
	case "list", "map":
		return all0(t.sub)
	}
	panic(t.k)
}

func kindOf(s string) token.Kind {
	if s == "a" {
		return token.SYM
	}
	return token.Kind(s)
}

func parseReal(seq []string) (res *Tr, ok bool) {
	defer func() {
		if r := recover(); r != nil {
			res, ok = nil, false
		}
	}()
	toks := make([]*token.Token, len(seq))
	for i, s := range seq {
		toks[i] = &token.Token{Kind: kindOf(s), Lexeme: s, Pos: pos.Pos{Idx: i, IdxEnd: i + 1, Col: i}}
	}
	e := parser.NewParser(append([]oper.Operator{}, ops...)).Parse(toks)
	return conv(e), true
}

func conv(e ast.Expr) *Tr {
	switch x := e.(type) {
	case *ast.IdentExpr:
		return &Tr{k: "atom"}
	case *ast.UnaryExpr:
		if x.Prefix {
			return &Tr{k: "prefix", op: x.Name, sub: []*Tr{conv(x.LHS)}}
		}
		return &Tr{k: "post", op: x.Name, sub: []*Tr{conv(x.LHS)}}
	case *ast.BinaryExpr:
		return &Tr{k: "bin", op: x.Name, sub: []*Tr{conv(x.LHS), conv(x.RHS)}}
	case *ast.TenaryExpr:
		return &Tr{k: "tern", sub: []*Tr{conv(x.Left), conv(x.Mid), conv(x.Right)}}
	case *ast.CallExpr:
		t := &Tr{k: "call", sub: []*Tr{conv(x.Callee)}}
		for _, a := range x.Args {
			t.sub = append(t.sub, conv(a))
		}
		return t
	case *ast.MemberExpr:
		return &Tr{k: "member", sub: []*Tr{conv(x.Obj)}, name: x.Field.Name}
	case *ast.SubscriptExpr:
		return &Tr{k: "sub", sub: []*Tr{conv(x.Var), conv(x.Idx)}}
	case *ast.GroupExpr:
		return &Tr{k: "group", sub: []*Tr{conv(x.SubExpr)}}
	case *ast.ListExpr:
		t := &Tr{k: "list"}
		for _, a := range x.Elems {
			t.sub = append(t.sub, conv(a))
		}
		return t
	case *ast.MapExpr:
		t := &Tr{k: "map"}
		for _, p := range x.Pairs {
			t.sub = append(t.sub, conv(p.Key), conv(p.Val))
		}
		return t
	}
	panic(fmt.Sprintf("%T", e))
}

// yieldsApprox: flatten up to one trailing comma before a closing bracket that the tree does not
// record. (Heuristic for this experiment: a `,` that is itself a member name is mis-stripped — the one
// "mismatch" on `[a . , ]` is this artefact; the Coq `yields` is a proper relation.)
func stripTrailing(seq []string) []string {
	out := []string{}
	for i, s := range seq {
		if s == "," && i+1 < len(seq) && seq[i+1] == "]" {
			continue
		}
		out = append(out, s)
	}
	return out
}

func eqs(a, b []string) bool {
	if len(a) != len(b) {
		return false
	}
	for i := range a {
		if a[i] != b[i] {
			return false
		}
	}
	return true
}

// all trees with exactly n size units
func trees(n int, memo map[int][]*Tr) []*Tr {
	if v, ok := memo[n]; ok {
		return v
	}
	var out []*Tr
	if n == 1 {
		out = append(out, &Tr{k: "atom"}, &Tr{k: "list"}, &Tr{k: "map"})
	}
	if n >= 2 {
		for _, x := range trees(n-1, memo) {
			out = append(out, &Tr{k: "prefix", op: "-", sub: []*Tr{x}}, &Tr{k: "prefix", op: "~", sub: []*Tr{x}},
				&Tr{k: "post", op: "!", sub: []*Tr{x}}, &Tr{k: "group", sub: []*Tr{x}},
				&Tr{k: "member", sub: []*Tr{x}, name: "a"}, &Tr{k: "call", sub: []*Tr{x}}, &Tr{k: "list", sub: []*Tr{x}})
		}
	}
	if n >= 3 {
		for i := 1; i <= n-2; i++ {
			for _, l := range trees(i, memo) {
				for _, r := range trees(n-1-i, memo) {
					for _, op := range []string{"-", "*", "^", "<", "@"} {
						out = append(out, &Tr{k: "bin", op: op, sub: []*Tr{l, r}})
					}
					out = append(out, &Tr{k: "sub", sub: []*Tr{l, r}}, &Tr{k: "call", sub: []*Tr{l, r}},
						&Tr{k: "list", sub: []*Tr{l, r}}, &Tr{k: "map", sub: []*Tr{l, r}})
				}
			}
		}
	}
	if n >= 4 {
		for i := 1; i <= n-3; i++ {
			for j := 1; i+j <= n-2; j++ {
				for _, c := range trees(i, memo) {
					for _, m := range trees(j, memo) {
						for _, r := range trees(n-1-i-j, memo) {
							out = append(out, &Tr{k: "tern", sub: []*Tr{c, m, r}})
						}
					}
				}
			}
		}
	}
	memo[n] = out
	return out
}

func main() {
	total, accepted, badFlat, badWfpStrict, badWfpLoose := 0, 0, 0, 0, 0
	var alphabet []string
	var rec func(seq []string, depth int)
	rec = func(seq []string, depth int) {
		if len(seq) > 0 {
			total++
			if t, ok := parseReal(seq); ok {
				accepted++
				if !eqs(flatten(t), stripTrailing(seq)) {
					badFlat++
					if badFlat <= 5 {
						fmt.Println("YIELDS MISMATCH", seq, t)
					}
				}
				if !wfp(0, t, false) {
					badWfpLoose++
					if badWfpLoose <= 5 {
						fmt.Println("NOT WFP (precedence)", seq, t)
					}
				} else if !wfp(0, t, true) {
					badWfpStrict++
					if badWfpStrict <= 3 {
						fmt.Println("non-associative chain accepted (D7):", seq, t)
					}
				}
			}
		}
		if depth == 0 {
			return
		}
		for _, s := range alphabet {
			rec(append(append([]string{}, seq...), s), depth-1)
		}
	}
	report := func(what string) {
		fmt.Printf("soundness %s: sequences=%d accepted=%d yieldsMismatch=%d notWfpPrecedence=%d nonassocOnly=%d\n",
			what, total, accepted, badFlat, badWfpLoose, badWfpStrict)
		total, accepted, badFlat, badWfpStrict, badWfpLoose = 0, 0, 0, 0, 0
	}
	alphabet = []string{"a", "-", "~", "*", "^", "<", "!", "@", "(", ")", "?", ":", ".", "[", "]", ","}
	rec(nil, 5) // 6 takes about a minute: 17.9 M sequences
	report("(16 kinds, len<=5)")
	alphabet = []string{"a", "<", "?", ":", "(", ")"}
	rec(nil, 9)
	report("(non-assoc + ternary alphabet, len<=9)")

	memo := map[int][]*Tr{}
	nt, nw, miss, diff := 0, 0, 0, 0
	for n := 1; n <= 6; n++ {
		for _, t := range trees(n, memo) {
			nt++
			if !wfp(0, t, true) {
				continue
			}
			nw++
			got, ok := parseReal(flatten(t))
			if !ok {
				miss++
				if miss <= 5 {
					fmt.Println("WFP TREE REJECTED", t, flatten(t))
				}
			} else if got.String() != t.String() {
				diff++
				if diff <= 5 {
					fmt.Println("WFP TREE PARSED DIFFERENTLY", t, "=>", got)
				}
			}
		}
	}
	fmt.Printf("completeness: trees=%d wfp=%d rejected=%d differently=%d\n", nt, nw, miss, diff)
}
