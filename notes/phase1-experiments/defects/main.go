// Replays the inputs of DESIGN.md section 6 on the three public back ends.
package main

import (
	"fmt"
	"strings"
	"time"

	"github.com/goghcrow/yae"
	"github.com/goghcrow/yae/closure"
	"github.com/goghcrow/yae/compiler"
	"github.com/goghcrow/yae/conv"
	"github.com/goghcrow/yae/interp"
	"github.com/goghcrow/yae/parser"
	"github.com/goghcrow/yae/parser/lexer"
	"github.com/goghcrow/yae/parser/oper"
	"github.com/goghcrow/yae/types"
	"github.com/goghcrow/yae/val"
	"github.com/goghcrow/yae/vm"
)

func try(c compiler.Compiler, src string, cenv, renv interface{}) (out string) {
	defer func() {
		if r := recover(); r != nil {
			out = fmt.Sprintf("PANIC-ESCAPED: %v", r)
		}
	}()
	f, err := yae.NewExpr().UseCompiler(c).Compile(src, cenv)
	if err != nil {
		return fmt.Sprintf("compile-err: %v", err)
	}
	v, err := f(renv)
	if err != nil {
		return fmt.Sprintf("run-err: %v", err)
	}
	return fmt.Sprintf("%s : %s", v, v.Type)
}

func all2(tag, src string, cenv, renv interface{}) {
	a, b, c := try(vm.Compile, src, cenv, renv), try(closure.Compile, src, cenv, renv), try(interp.Interp, src, cenv, renv)
	if a == b && b == c {
		fmt.Printf("%-8s %-52q all: %s\n", tag, src, a)
	} else {
		fmt.Printf("%-8s %-52q DIFFER vm=%s | closure=%s | interp=%s\n", tag, src, a, b, c)
	}
}
func all(tag, src string, env interface{}) { all2(tag, src, env, env) }

type A struct {
	X int    `yae:"x"`
	Y string `yae:"y"`
}
type B struct {
	Y string `yae:"y"`
	X int    `yae:"x"`
}

func main() {
	all("D1", `["a":1, "a":2]["a"]`, nil)
	all("D2", `[{a:1,b:"x"},{b:"y",a:2}][1].a`, nil)
	all2("D2", `o.x + 1`, struct{ O A `yae:"o"` }{A{1, "s"}}, struct{ O B `yae:"o"` }{B{"s", 1}})
	all("D3", `get([1,2], -1, 0)`, nil)
	all("D4", `[1,2][5]`, nil)
	all("D4", `5 % 0`, nil)
	all("D4", `match("(", "a")`, nil)
	all("D5", `string(["d":4,"a":1,"c":3,"b":2])`, nil)
	all("D6", `union([1],[2])`, nil)
	all("D7", `true == false == true || false`, nil)
	all("D8", `truex`, nil)
	all("D9", `[{c:1,a:2,b:3}]`, nil)
	all("D9", `union([{c:1,a:2,b:3}], [{a:2,b:3,c:1}])`, nil)
	all("D10", `[10000000000000000000:1, 20000000000000000000:2]`, nil)
	all("D11", `[xs, xs]`, map[string]interface{}{"xs": []int{1}})
	func() {
		defer func() {
			if r := recover(); r != nil {
				fmt.Println("D12      val env reuse PANIC-ESCAPED:", r)
			}
		}()
		e := yae.NewExpr()
		tenv, _ := conv.TypeEnvOf(map[string]interface{}{"n": 1})
		_, err1 := e.Compile("n+1", tenv)
		_, err2 := e.Compile("n+2", tenv)
		fmt.Println("D12      type env reuse:", err1, "|", err2)
		f, _ := e.Compile("n+1", map[string]interface{}{"n": 1})
		venv, _ := conv.ValEnvOf(map[string]interface{}{"n": 1})
		v1, e1 := f(venv)
		v2, e2 := f(venv)
		fmt.Println("D12      val env reuse:", v1, e1, v2, e2)
	}()
	for _, n := range []int{16, 20, 22} {
		src := strings.Repeat("[", n) + "1:1" + strings.Repeat("]:1", n-1) + "]"
		t0 := time.Now()
		_, err := yae.NewExpr().Compile(src, nil)
		fmt.Printf("D13      nest %d (%d chars): %v rejected=%v\n", n, len(src), time.Since(t0), err != nil)
	}
	{
		ops := oper.BuiltIn()
		src := "1 + 2 * foo(3)"
		ex := parser.NewParser(ops).Parse(lexer.NewLexer(ops).Lex(src))
		fmt.Printf("D14      span of %q: %+v\n", src, ex.Position())
	}
	{
		e := yae.NewExpr()
		ot := types.Obj([]types.Field{{Name: "a", Val: types.Num}, {Name: "b", Val: types.Str}})
		e.RegisterFun(val.Fun(types.Fun("f", []*types.Type{ot}, types.Num), func(a ...*val.Val) *val.Val { v, _ := a[0].Obj().Get("a"); return v }))
		_, err1 := e.Compile(`f({a:1,b:"x"})`, nil)
		_, err2 := e.Compile(`f({b:"x",a:1})`, nil)
		fmt.Println("D15      mono overload, permuted fields:", err1, "|", err2)
	}
	{
		e := yae.NewExpr()
		a := types.TyVar("a")
		e.RegisterFun(val.Fun(types.Fun("g", []*types.Type{types.List(types.Num), a}, a), func(v ...*val.Val) *val.Val { return v[1] }))
		a2, b2 := types.TyVar("a"), types.TyVar("b")
		e.RegisterFun(val.Fun(types.Fun("g", []*types.Type{types.List(a2), b2}, b2), func(v ...*val.Val) *val.Val { return v[1] }))
		_, err := e.Compile(`g([], 1)`, nil)
		fmt.Println("D16      g([],1):", err)
	}
	{
		src := "[" + strings.Repeat("1,", 22000) + "1][0] > 0 && true"
		_, e1 := yae.NewExpr().UseCompiler(vm.Compile).Compile(src, nil)
		_, e2 := yae.NewExpr().UseCompiler(closure.Compile).Compile(src, nil)
		fmt.Println("D18      conditional after byte 65535: vm:", e1, "| closure:", e2)
	}
	{
		now := time.Now()
		x, y := val.Time(now), val.Time(now.Round(0).UTC())
		fmt.Println("D20      equal instants: ==", val.Equals(x, y), "same text", x.String() == y.String(), "same key", x.Key() == y.Key())
	}
	{
		x, _ := conv.ValOf(struct {
			P *A `yae:"p,maybe"`
		}{&A{1, "s"}})
		y, _ := conv.ValOf(struct {
			P *B `yae:"p,maybe"`
		}{&B{"s", 1}})
		fmt.Println("D26      optional of permuted object: ==", val.Equals(x, y), "same text", x.String() == y.String())
	}
}
