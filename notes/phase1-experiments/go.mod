module experiments

go 1.17

require github.com/goghcrow/yae v0.0.0

// point at /repo (or at a scratch copy when trying a repair)
replace github.com/goghcrow/yae => /repo
