// Tests DESIGN.md's C09 laws on the real lexer for all strings up to a length bound:
// partition / gaps are white space / Idx,IdxEnd,Line,Col reproduce the lexeme / longest registered
// symbolic operator / whole word for identifier-like operators and true/false.
package main

import (
	"fmt"
	"unicode"

	"github.com/goghcrow/yae/parser/lexer"
	"github.com/goghcrow/yae/parser/oper"
	"github.com/goghcrow/yae/parser/token"
)

func isIdentRune(r rune) bool { return r == '_' || unicode.IsLetter(r) || unicode.IsDigit(r) }

func main() {
	ops := append([]oper.Operator{}, oper.BuiltIn()...)
	ops = append(ops, oper.Operator{Kind: "<=>", BP: 6, Fixity: oper.INFIX_N}, oper.Operator{Kind: ".+", BP: 7, Fixity: oper.INFIX_L})
	symbolic := map[string]bool{}
	identOps := map[string]bool{}
	for _, o := range ops {
		if oper.IsIdentOp(string(o.Kind)) {
			identOps[string(o.Kind)] = true
		} else {
			symbolic[string(o.Kind)] = true
		}
	}
	lx := lexer.NewLexer(ops) // one lexer: NewLexer compiles ten regexps per call (~70 us)
	lexReal := func(s string) (toks []*token.Token, ok bool) {
		defer func() {
			if r := recover(); r != nil {
				toks, ok = nil, false
			}
		}()
		return lx.Lex(s), true
	}
	alphabet := []rune{'t', 'r', 'u', 'e', 'o', 'a', '1', '.', '<', '=', '>', '+', '!', '?', ' ', '\n', '"', 'é'}
	total, okc := 0, 0
	bad := map[string]int{}
	ex := map[string]string{}
	note := func(k, s string) {
		bad[k]++
		if _, ok := ex[k]; !ok {
			ex[k] = fmt.Sprintf("%q", s)
		}
	}
	var rec func(cur []rune, d int)
	rec = func(cur []rune, d int) {
		if len(cur) > 0 {
			total++
			src := string(cur)
			if toks, ok := lexReal(src); ok {
				okc++
				rs := []rune(src)
				p, line, col := 0, 0, 0
				adv := func(to int) {
					for p < to {
						if rs[p] == '\n' {
							line++
							col = 0
						} else {
							col++
						}
						p++
					}
				}
				for _, t := range toks {
					for j := p; j < t.Idx; j++ {
						if !unicode.IsSpace(rs[j]) {
							note("gap-not-space", src)
						}
					}
					if t.Idx < p {
						note("overlap", src)
					}
					adv(t.Idx)
					if t.Line != line || t.Col != col {
						note("line/col", src)
					}
					if t.IdxEnd < t.Idx || t.IdxEnd > len(rs) || string(rs[t.Idx:t.IdxEnd]) != t.Lexeme {
						note("span!=lexeme", src)
					} else {
						adv(t.IdxEnd)
					}
					k := string(t.Kind)
					if symbolic[k] || k == "." || k == "?" {
						for s := range symbolic {
							n := len([]rune(s))
							if len(s) > len(k) && len(rs)-t.Idx >= n && string(rs[t.Idx:t.Idx+n]) == s {
								note("not-longest", src)
							}
						}
					}
					if identOps[k] || k == "true" || k == "false" {
						if t.IdxEnd < len(rs) && isIdentRune(rs[t.IdxEnd]) {
							note("keyword-followed-by-ident-char:"+k, src)
						}
						if t.Idx > 0 && isIdentRune(rs[t.Idx-1]) {
							note("keyword-preceded-by-ident-char:"+k, src)
						}
					}
				}
				for j := p; j < len(rs); j++ {
					if !unicode.IsSpace(rs[j]) {
						note("tail-not-space", src)
					}
				}
			}
		}
		if d == 0 {
			return
		}
		for _, r := range alphabet {
			rec(append(append([]rune{}, cur...), r), d-1)
		}
	}
	rec(nil, 5)
	fmt.Println("strings", total, "lexed ok", okc)
	for k, v := range bad {
		fmt.Println("  ", k, v, "e.g.", ex[k])
	}
}
