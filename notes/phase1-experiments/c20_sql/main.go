// Tests DESIGN.md's C20 round-trip statement: the WHERE text printed by ext.CompileToSql, re-read with
// standard SQL precedence (condition, NOT, AND, OR), is the criteria tree up to associativity of AND / OR.
package main

import (
	"fmt"
	"strings"

	"github.com/goghcrow/yae/ext"
	"github.com/goghcrow/yae/parser/ast"
	"github.com/goghcrow/yae/parser/pos"
	"github.com/goghcrow/yae/types"
)

type BT struct {
	k   string // leaf and or not
	id  int
	sub []*BT
}

func (t *BT) String() string {
	if t.k == "leaf" {
		return fmt.Sprintf("L%d", t.id)
	}
	xs := []string{}
	for _, s := range t.sub {
		xs = append(xs, s.String())
	}
	return "(" + t.k + " " + strings.Join(xs, " ") + ")"
}

// associativity normal form: flatten nested same connective
func norm(t *BT) *BT {
	if t.k == "leaf" {
		return t
	}
	if t.k == "not" {
		return &BT{k: "not", sub: []*BT{norm(t.sub[0])}}
	}
	out := &BT{k: t.k}
	for _, s := range t.sub {
		n := norm(s)
		if n.k == t.k {
			out.sub = append(out.sub, n.sub...)
		} else {
			out.sub = append(out.sub, n)
		}
	}
	return out
}

var leafSQL = []string{
	"`c` = 1", "`c` BETWEEN 1 AND 2", "`c` IN (1, 2)", "`s` LIKE \"a AND b\"", "`c` IS NULL",
}

func num(s string) ast.Expr { return ast.Num(s, pos.Unknown) }

func leafCrit(id int) ext.Criteria {
	switch id {
	case 0:
		return ext.Cond{Field: "c", Operator: "=", Operands: []ast.Expr{num("1")}}
	case 1:
		return ext.Cond{Field: "c", Operator: "BETWEEN", Operands: []ast.Expr{num("1"), num("2")}}
	case 2:
		return ext.Cond{Field: "c", Operator: "IN", Operands: []ast.Expr{ast.List([]ast.Expr{num("1"), num("2")}, pos.Unknown)}}
	case 3:
		return ext.Cond{Field: "s", Operator: "LIKE", Operands: []ast.Expr{ast.Str(`"a AND b"`, pos.Unknown)}}
	default:
		return ext.Cond{Field: "c", Operator: "ISNULL"}
	}
}

func crit(t *BT) ext.Criteria {
	switch t.k {
	case "leaf":
		return leafCrit(t.id)
	case "and":
		return ext.CondGroup{LogicalOper: ext.AND, Conds: []ext.Criteria{crit(t.sub[0]), crit(t.sub[1])}}
	case "or":
		return ext.CondGroup{LogicalOper: ext.OR, Conds: []ext.Criteria{crit(t.sub[0]), crit(t.sub[1])}}
	default:
		return ext.CondGroup{LogicalOper: ext.NOT, Conds: []ext.Criteria{crit(t.sub[0])}}
	}
}

// conditions are recognised as units (their own internal syntax is C20_quote / C20_scalars' business)
func tokenize(s string) []string {
	var toks []string
	for len(s) > 0 {
		s = strings.TrimLeft(s, " ")
		if s == "" {
			break
		}
		matched := false
		for i, l := range leafSQL {
			if strings.HasPrefix(s, l) {
				toks = append(toks, fmt.Sprintf("L%d", i))
				s = s[len(l):]
				matched = true
				break
			}
		}
		if matched {
			continue
		}
		for _, k := range []string{"AND", "OR", "NOT", "(", ")"} {
			if strings.HasPrefix(s, k) {
				toks = append(toks, k)
				s = s[len(k):]
				matched = true
				break
			}
		}
		if !matched {
			return append(toks, "?"+s)
		}
	}
	return toks
}

// reference reader with standard precedence
type rd struct {
	t []string
	i int
}

func (r *rd) peek() string {
	if r.i < len(r.t) {
		return r.t[r.i]
	}
	return ""
}
func (r *rd) or() *BT {
	l := r.and()
	for r.peek() == "OR" {
		r.i++
		l = &BT{k: "or", sub: []*BT{l, r.and()}}
	}
	return l
}
func (r *rd) and() *BT {
	l := r.not()
	for r.peek() == "AND" {
		r.i++
		l = &BT{k: "and", sub: []*BT{l, r.not()}}
	}
	return l
}
func (r *rd) not() *BT {
	if r.peek() == "NOT" {
		r.i++
		return &BT{k: "not", sub: []*BT{r.not()}}
	}
	return r.atom()
}
func (r *rd) atom() *BT {
	t := r.peek()
	r.i++
	if t == "(" {
		e := r.or()
		if r.peek() != ")" {
			panic("expected )")
		}
		r.i++
		return e
	}
	if strings.HasPrefix(t, "L") {
		var id int
		fmt.Sscanf(t, "L%d", &id)
		return &BT{k: "leaf", id: id}
	}
	panic("bad token " + t)
}

func gen(d int) []*BT {
	if d == 0 {
		out := []*BT{}
		for i := range leafSQL {
			out = append(out, &BT{k: "leaf", id: i})
		}
		return out
	}
	sub := gen(d - 1)
	out := append([]*BT{}, sub...)
	for _, a := range sub {
		out = append(out, &BT{k: "not", sub: []*BT{a}})
	}
	for i, a := range sub {
		for j, b := range sub {
			if d >= 2 && (i+j)%7 != 0 { // thin out the deepest level
				continue
			}
			out = append(out, &BT{k: "and", sub: []*BT{a, b}}, &BT{k: "or", sub: []*BT{a, b}})
		}
	}
	return out
}

func main() {
	trees := gen(3)
	n, bad := 0, 0
	for _, t := range trees {
		n++
		// a fresh model env per tree: re-using one panics with "env.parent != nil" (defect D12)
		tenv := types.NewEnv()
		tenv.Put("c", types.Num)
		tenv.Put("s", types.Str)
		sql, err := ext.CompileToSql(crit(t), tenv)(nil)
		if err != nil {
			fmt.Println("ERR", err)
			continue
		}
		var got *BT
		func() {
			defer func() {
				if r := recover(); r != nil {
					got = &BT{k: "leaf", id: -1}
				}
			}()
			r := &rd{t: tokenize(sql)}
			got = r.or()
			if r.i != len(r.t) {
				got = &BT{k: "leaf", id: -2}
			}
		}()
		if norm(got).String() != norm(t).String() {
			bad++
			if bad <= 8 {
				fmt.Println("MISMATCH", t, "=>", sql, "=> read as", got)
			}
		}
	}
	fmt.Println("trees", n, "mismatches", bad)
}
