// Tests DESIGN.md's reading of the type checker (C05, Impl side) against the real types.Check:
// accept/reject and inferred type on all small programs over a fixed environment, with overloads
// resolved as: exactly-equal mono overload first, else the FIRST registered poly overload (same
// name and arity) whose parameter tuple inst-matches the argument tuple with a ground result --
// after which (code as it stands) inequality of instantiated parameters and arguments is a hard error.
package main

import (
	"fmt"
	"sort"
	"strings"

	"github.com/goghcrow/yae/fun"
	"github.com/goghcrow/yae/parser"
	"github.com/goghcrow/yae/parser/lexer"
	"github.com/goghcrow/yae/parser/oper"
	"github.com/goghcrow/yae/trans"
	"github.com/goghcrow/yae/types"
)

type T struct {
	k    string // num str bool time bot var list maybe map obj
	name string
	sub  []*T
	fn   []string
}

func (t *T) String() string {
	switch t.k {
	case "var":
		return "'" + t.name
	case "list", "maybe":
		return t.k + "[" + t.sub[0].String() + "]"
	case "map":
		return "map[" + t.sub[0].String() + ", " + t.sub[1].String() + "]"
	case "obj":
		xs := []string{}
		for i, f := range t.fn {
			xs = append(xs, f+": "+t.sub[i].String())
		}
		return "{" + strings.Join(xs, ", ") + "}"
	case "bot":
		return "⊥"
	}
	return t.k
}

func fromGo(g *types.Type) *T {
	switch g.Kind {
	case types.KNum:
		return &T{k: "num"}
	case types.KStr:
		return &T{k: "str"}
	case types.KBool:
		return &T{k: "bool"}
	case types.KTime:
		return &T{k: "time"}
	case types.KBot:
		return &T{k: "bot"}
	case types.KTyVar:
		return &T{k: "var", name: g.TyVar().Name}
	case types.KList:
		return &T{k: "list", sub: []*T{fromGo(g.List().El)}}
	case types.KMaybe:
		return &T{k: "maybe", sub: []*T{fromGo(g.Maybe().Elem)}}
	case types.KMap:
		return &T{k: "map", sub: []*T{fromGo(g.Map().Key), fromGo(g.Map().Val)}}
	case types.KObj:
		t := &T{k: "obj"}
		for _, f := range g.Obj().Fields {
			t.fn = append(t.fn, f.Name)
			t.sub = append(t.sub, fromGo(f.Val))
		}
		return t
	}
	panic(g.String())
}

func fieldIdx(fn []string, f string) int {
	for k, g := range fn {
		if g == f {
			return k
		}
	}
	return -1
}

func eq(a, b *T) bool {
	if a.k != b.k {
		return false
	}
	switch a.k {
	case "var":
		return a.name == b.name
	case "obj":
		if len(a.fn) != len(b.fn) {
			return false
		}
		for i, f := range a.fn {
			j := fieldIdx(b.fn, f)
			if j < 0 || !eq(a.sub[i], b.sub[j]) {
				return false
			}
		}
		return true
	}
	if len(a.sub) != len(b.sub) {
		return false
	}
	for i := range a.sub {
		if !eq(a.sub[i], b.sub[i]) {
			return false
		}
	}
	return true
}

func ground(t *T) bool {
	if t.k == "var" {
		return false
	}
	for _, s := range t.sub {
		if !ground(s) {
			return false
		}
	}
	return true
}

// match computes the (unique, left-to-right) sigma with inst sigma p g, as the unifier does
func match(sig map[string]*T, p, g *T) bool {
	if p.k == "var" {
		if s, ok := sig[p.name]; ok {
			return eq(s, g)
		}
		sig[p.name] = g
		return true
	}
	if g.k == "bot" {
		return true
	}
	if p.k != g.k {
		return false
	}
	if p.k == "obj" {
		if len(p.fn) != len(g.fn) {
			return false
		}
		for i, f := range p.fn {
			j := fieldIdx(g.fn, f)
			if j < 0 || !match(sig, p.sub[i], g.sub[j]) {
				return false
			}
		}
		return true
	}
	if len(p.sub) != len(g.sub) {
		return false
	}
	for i := range p.sub {
		if !match(sig, p.sub[i], g.sub[i]) {
			return false
		}
	}
	return true
}

func apply(sig map[string]*T, p *T) *T {
	if p.k == "var" {
		if s, ok := sig[p.name]; ok {
			return s
		}
		return p
	}
	out := &T{k: p.k, name: p.name, fn: p.fn}
	for _, s := range p.sub {
		out.sub = append(out.sub, apply(sig, s))
	}
	return out
}

type sigT struct {
	name   string
	params []*T
	ret    *T
}

var monos, polys []sigT

// reference expression
type E struct {
	k    string // lit var list map obj call sub member
	ty   *T     // for lit / var
	name string
	sub  []*E
	fn   []string
	src  string
}

var env = map[string]*T{}

func isPrim(t *T) bool { return t.k == "num" || t.k == "str" || t.k == "bool" || t.k == "time" }

func check(e *E) (*T, bool) {
	switch e.k {
	case "lit", "var":
		return e.ty, true
	case "list":
		if len(e.sub) == 0 {
			return &T{k: "list", sub: []*T{{k: "bot"}}}, true
		}
		t0, ok := check(e.sub[0])
		if !ok {
			return nil, false
		}
		for _, s := range e.sub[1:] {
			t, ok := check(s)
			if !ok || !eq(t0, t) {
				return nil, false
			}
		}
		return &T{k: "list", sub: []*T{t0}}, true
	case "map":
		if len(e.sub) == 0 {
			return &T{k: "map", sub: []*T{{k: "bot"}, {k: "bot"}}}, true
		}
		k0, ok := check(e.sub[0])
		if !ok || !isPrim(k0) {
			return nil, false
		}
		v0, ok := check(e.sub[1])
		if !ok {
			return nil, false
		}
		for i := 2; i < len(e.sub); i += 2 {
			k, ok := check(e.sub[i])
			if !ok || !eq(k0, k) {
				return nil, false
			}
			v, ok := check(e.sub[i+1])
			if !ok || !eq(v0, v) {
				return nil, false
			}
		}
		return &T{k: "map", sub: []*T{k0, v0}}, true
	case "obj":
		t := &T{k: "obj"}
		for i, s := range e.sub {
			ft, ok := check(s)
			if !ok || fieldIdx(t.fn, e.fn[i]) >= 0 {
				return nil, false
			}
			t.fn = append(t.fn, e.fn[i])
			t.sub = append(t.sub, ft)
		}
		return t, true
	case "call":
		args := []*T{}
		for _, s := range e.sub {
			t, ok := check(s)
			if !ok {
				return nil, false
			}
			args = append(args, t)
		}
		// 1. mono: parameter tuple equal (rendered key; no objects among built-in mono parameters)
		var hit *sigT
		for i := range monos {
			m := &monos[i]
			if m.name != e.name || len(m.params) != len(args) {
				continue
			}
			same := true
			for j := range args {
				if m.params[j].String() != args[j].String() {
					same = false
				}
			}
			if same {
				hit = m // last registration wins
			}
		}
		if hit != nil {
			return hit.ret, true
		}
		// 2. poly: first in registration order that matches with a ground result
		for i := range polys {
			p := &polys[i]
			if p.name != e.name || len(p.params) != len(args) {
				continue
			}
			sig := map[string]*T{}
			ok := true
			for j := range args {
				if !match(sig, p.params[j], args[j]) {
					ok = false
					break
				}
			}
			if !ok {
				continue
			}
			ret := apply(sig, p.ret)
			if !ground(ret) {
				continue
			}
			// code as it stands: selected; inequality is a hard error, later overloads are not tried
			for j := range args {
				if !eq(apply(sig, p.params[j]), args[j]) {
					return nil, false
				}
			}
			return ret, true
		}
		return nil, false
	case "sub":
		vt, ok := check(e.sub[0])
		if !ok {
			return nil, false
		}
		switch vt.k {
		case "list":
			it, ok := check(e.sub[1])
			if !ok || !eq(it, &T{k: "num"}) {
				return nil, false
			}
			return vt.sub[0], true
		case "map":
			it, ok := check(e.sub[1])
			if !ok || !eq(it, vt.sub[0]) {
				return nil, false
			}
			return vt.sub[1], true
		}
		return nil, false
	case "member":
		ot, ok := check(e.sub[0])
		if !ok || ot.k != "obj" {
			return nil, false
		}
		j := fieldIdx(ot.fn, e.name)
		if j < 0 {
			return nil, false
		}
		return ot.sub[j], true
	}
	panic(e.k)
}

func join(es []*E) string {
	xs := []string{}
	for _, e := range es {
		xs = append(xs, e.src)
	}
	return strings.Join(xs, ", ")
}

func gen(depth int, leaves []*E) []*E {
	if depth == 0 {
		return leaves
	}
	sub := gen(depth-1, leaves)
	out := append([]*E{}, sub...)
	if depth == 2 {
		var pick []*E
		bad := 0
		for _, e := range sub {
			if _, ok := check(e); ok {
				if len(pick) < 220 || e.k == "list" || e.k == "map" {
					pick = append(pick, e)
				}
			} else {
				bad++
				if bad%40 == 0 {
					pick = append(pick, e)
				}
			}
		}
		if len(pick) > 260 {
			pick = pick[:260]
		}
		sub = pick
	}
	add := func(e *E) { out = append(out, e) }
	for _, a := range sub {
		add(&E{k: "list", sub: []*E{a}, src: "[" + a.src + "]"})
		add(&E{k: "obj", sub: []*E{a}, fn: []string{"a"}, src: "{a: " + a.src + "}"})
		add(&E{k: "member", sub: []*E{a}, name: "a", src: "(" + a.src + ").a"})
		add(&E{k: "member", sub: []*E{a}, name: "b", src: "(" + a.src + ").b"})
		for _, f := range []string{"len", "string", "abs", "max"} {
			add(&E{k: "call", name: f, sub: []*E{a}, src: f + "(" + a.src + ")"})
		}
		add(&E{k: "call", name: "-", sub: []*E{a}, src: "-(" + a.src + ")"})
	}
	for _, a := range sub {
		for _, b := range sub {
			add(&E{k: "list", sub: []*E{a, b}, src: "[" + a.src + ", " + b.src + "]"})
			add(&E{k: "map", sub: []*E{a, b}, src: "[" + a.src + ": " + b.src + "]"})
			add(&E{k: "obj", sub: []*E{a, b}, fn: []string{"b", "a"}, src: "{b: " + a.src + ", a: " + b.src + "}"})
			add(&E{k: "obj", sub: []*E{a, b}, fn: []string{"a", "a"}, src: "{a: " + a.src + ", a: " + b.src + "}"})
			add(&E{k: "sub", sub: []*E{a, b}, src: "(" + a.src + ")[" + b.src + "]"})
			for _, f := range []string{"get", "isset", "union", "max"} {
				add(&E{k: "call", name: f, sub: []*E{a, b}, src: f + "(" + a.src + ", " + b.src + ")"})
			}
			for _, f := range []string{"+", "==", "<"} {
				add(&E{k: "call", name: f, sub: []*E{a, b}, src: "((" + a.src + ") " + f + " (" + b.src + "))"})
			}
		}
	}
	if depth == 1 {
		for _, a := range sub {
			for _, b := range sub {
				for _, c := range sub {
					for _, f := range []string{"get", "if"} {
						add(&E{k: "call", name: f, sub: []*E{a, b, c}, src: f + "(" + join([]*E{a, b, c}) + ")"})
					}
					add(&E{k: "list", sub: []*E{a, b, c}, src: "[" + join([]*E{a, b, c}) + "]"})
				}
			}
		}
	}
	return out
}

func main() {
	for _, f := range fun.BuiltIn() {
		ft := f.Type.Fun()
		s := sigT{name: ft.Name, ret: fromGo(ft.Return)}
		for _, p := range ft.Param {
			s.params = append(s.params, fromGo(p))
		}
		isPoly := !ground(s.ret)
		for _, p := range s.params {
			isPoly = isPoly || !ground(p)
		}
		if isPoly {
			polys = append(polys, s)
		} else {
			monos = append(monos, s)
		}
	}
	tenv := types.NewEnv()
	for _, f := range fun.BuiltIn() {
		tenv.RegisterFun(f.Type)
	}
	put := func(n string, g *types.Type) { tenv.Put(n, g); env[n] = fromGo(g) }
	put("x", types.Num)
	put("xs", types.List(types.Num))
	put("m", types.Map(types.Str, types.Num))
	put("o", types.Obj([]types.Field{{Name: "a", Val: types.Num}, {Name: "b", Val: types.Str}}))
	put("mb", types.Maybe(types.Num))
	leaves := []*E{
		{k: "lit", ty: &T{k: "num"}, src: "1"}, {k: "lit", ty: &T{k: "str"}, src: `"s"`}, {k: "lit", ty: &T{k: "bool"}, src: "true"},
		{k: "list", src: "[]"}, {k: "map", src: "[:]"},
	}
	names := []string{}
	for n := range env {
		names = append(names, n)
	}
	sort.Strings(names)
	for _, n := range names {
		leaves = append(leaves, &E{k: "var", ty: env[n], src: n})
	}
	progs := gen(2, leaves)
	ops := oper.BuiltIn()
	lx, ps := lexer.NewLexer(ops), parser.NewParser(ops)
	n, acc, bad := 0, 0, 0
	for _, e := range progs {
		n++
		var got *types.Type
		var err error
		func() {
			defer func() {
				if r := recover(); r != nil {
					err = fmt.Errorf("%v", r)
				}
			}()
			got, err = types.Infer(trans.Desugar(ps.Parse(lx.Lex(e.src))), tenv)
		}()
		want, ok := check(e)
		if (err == nil) != ok || (ok && !eq(fromGo(got), want)) {
			bad++
			if bad <= 12 {
				fmt.Printf("MISMATCH %s  real=(%v, %v)  ref=(%v, %v)\n", e.src, got, err, want, ok)
			}
		}
		if ok {
			acc++
		}
	}
	fmt.Println("programs", n, "accepted by reference", acc, "mismatches", bad)
}
